"""TEBDWorld (C11): local Hamiltonian objects and TEBD evolutions driven through
histories of target times / steps / orders / generator abandonment, with the
``id()``-keyed operator caches of LocalHamGen running on a simulated allocator
(address reuse after ``apply_to_arrays`` is a recorded decision).  Oracle: an
independent dense product-formula model and ``expm`` of the stored terms.
"""

import math

import numpy as np
import scipy.linalg as sla

from sim.engine import World, Violation, Skip, HarnessError, data_rng, pick, wchoice, maxdiff
from sim.alloc import SimAlloc
from sim.seams import NameSeam

SUZUKI_S = 1.0 / (4.0 - 4.0 ** (1.0 / 3.0))


# --------------------------------------------------------------------------- #
# dense model


def apply2(psi, G, i, j, L, d=2):
    """Apply two-site operator G (first factor on site i) to dense psi."""
    G = np.asarray(G).reshape(d, d, d, d)
    psi = psi.reshape((d,) * L)
    out = np.tensordot(G, psi, axes=([2, 3], [i, j]))
    # result axes: (i_out, j_out, rest...) -> move back
    rest = [a for a in range(L) if a not in (i, j)]
    perm = [0] * L
    perm[i] = 0
    perm[j] = 1
    for n, a in enumerate(rest):
        perm[a] = 2 + n
    return out.transpose(perm).reshape(-1)


def embed2(G, i, j, L, d=2):
    D = d**L
    M = np.zeros((D, D), dtype=complex)
    eye = np.eye(D)
    for c in range(D):
        M[:, c] = apply2(eye[:, c].astype(complex), G, i, j, L, d)
    return M


def my_schedule(order):
    """My own statement of the documented formulas (A = even bonds, 0; B = odd
    bonds, 1)."""
    if order == 1:
        return [(0, 1.0), (1, 1.0)]
    s2 = [(0, 0.5), (1, 1.0), (0, 0.5)]
    if order == 2:
        return s2
    if order == 4:
        out = []
        for f in (SUZUKI_S, SUZUKI_S, 1 - 4 * SUZUKI_S, SUZUKI_S, SUZUKI_S):
            out += [(k, c * f) for k, c in s2]
        return out
    raise HarnessError(order)


def layers(L, cyclic):
    """Bonds of the 'right' (even) and 'left' (odd) sweeps, in the order of
    application, incl. the boundary bond as an ordered pair (L-1, 0)."""
    even = [(i, i + 1) for i in range(0, L - 1, 2)]
    odd = [(i, i + 1) for i in reversed(range(1, L - 1, 2))]
    if cyclic:
        if L % 2 == 1:
            even = even + [(L - 1, 0)]
        else:
            odd = [(L - 1, 0)] + odd
    return even, odd


class HamModel:
    """What was supplied: H2 per ordered pair, H1 per site."""

    def __init__(self, L, cyclic, h2, h1):
        self.L = L
        self.cyclic = cyclic
        self.h2 = h2  # {(i, j): matrix, first factor on i}
        self.h1 = h1  # {site: matrix}
        self.scale = 1.0

    def pairs(self):
        return sorted({tuple(sorted(k)) for k in self.h2})

    def term(self, pair):
        """Effective two-site term for sorted pair (first factor on the smaller
        site): own statement of 'single-site terms shared among the bonds
        covering the site'."""
        i, j = pair
        X = np.zeros((4, 4), dtype=complex)
        for (a, b), G in self.h2.items():
            if (a, b) == (i, j):
                X = X + G
            elif (b, a) == (i, j):
                X = X + np.asarray(G).reshape(2, 2, 2, 2).transpose(1, 0, 3, 2).reshape(4, 4)
        cover = {}
        for p in self.pairs():
            for s in p:
                cover[s] = cover.get(s, 0) + 1
        I = np.eye(2)
        if i in self.h1:
            X = X + np.kron(self.h1[i], I) / cover[i]
        if j in self.h1:
            X = X + np.kron(I, self.h1[j]) / cover[j]
        return X * self.scale

    def dense(self):
        L = self.L
        H = np.zeros((2**L, 2**L), dtype=complex)
        I = np.eye(2)
        for (a, b), G in self.h2.items():
            H += embed2(G, a, b, L)
        for s, h in self.h1.items():
            M = np.array([[1.0]])
            for a in range(L):
                M = np.kron(M, h if a == s else I)
            H += M
        return H * self.scale

    def ordered_term(self, a, b):
        """Term for the ordered pair (a, b): first factor on a."""
        if a < b:
            return self.term((a, b))
        X = self.term((b, a))
        return X.reshape(2, 2, 2, 2).transpose(1, 0, 3, 2).reshape(4, 4)

    def mean_norm(self):
        ps = self.pairs()
        return sum(np.linalg.norm(self.term(p)) for p in ps) / len(ps)


def model_step(psi, ham, order, dt, imag):
    L = ham.L
    even, odd = layers(L, ham.cyclic)
    fac = -1.0 if imag else -1.0j
    for k, frac in my_schedule(order):
        for a, b in (even, odd)[k]:
            U = sla.expm(fac * dt * frac * ham.ordered_term(a, b))
            psi = apply2(psi, U, a, b, L)
    return psi


class _RelabelledHam:
    """The world addresses sites by integers; the graph Hamiltonian uses
    string labels whose sorted order is the integer order."""

    def __init__(self, ham, labels):
        self._ham = ham
        self._labels = labels
        self._index = {l: i for i, l in enumerate(labels)}

    @property
    def terms(self):
        return {tuple(self._index[x] for x in k): v for k, v in self._ham.terms.items()}

    def _w(self, where):
        return tuple(self._labels[i] for i in where)

    def get_gate(self, where):
        return self._ham.get_gate(self._w(where))

    def get_gate_expm(self, where, x):
        return self._ham.get_gate_expm(self._w(where), x)

    def apply_to_arrays(self, fn):
        return self._ham.apply_to_arrays(fn)

    def get_trotter_gates(self, x, order=2):
        for g in self._ham.get_trotter_gates(x, order=order):
            U, where = g
            yield U, tuple(self._index[w] for w in where)


# --------------------------------------------------------------------------- #


class TEBDWorld(World):
    PROP = "C11"
    NAME = "tebd"
    LEVEL = "exploration"
    SIM_TIME_UNIT = "physical evolution time (sum over evolutions)"
    RUNS = {"quick": 10000, "thorough": 250000}
    WALL_CAP = {"quick": 900, "thorough": 3300}
    SHRINK_BUDGET = 80
    RULE = (
        "one run = one local Hamiltonian (L 2-6, open/periodic, site-dependent "
        "non-exchange-symmetric complex H2, H1 as array/dict/default+overrides) and "
        "up to two TEBD objects sharing it, driven through a drawn history of "
        "update_to / step / at_times (advanced, abandoned) / get_gate(_expm) / "
        "apply_to_arrays ops with address-reuse decisions; non-trivial = >= 1 "
        "evolution op with >= 2 Trotter steps or a cache-reuse decision fired; "
        "distinct = different digest of (knobs, ops, verdict observations)"
    )
    COMPONENTS = {
        "real": [
            "LocalHamGen / LocalHam1D construction, term merging, all seven id()-keyed operator caches, get_gate / get_gate_expm / apply_to_arrays",
            "TEBD.sweep (canonical centre motion, queue merging), step, update_to, at_times, time and error bookkeeping, trotter_schedule",
            "MatrixProductState.gate_split_ / canonize with cutoff=0",
        ],
        "stub": [
            "builtin id() inside quimb.tensor.tnag.tebd -> sim.alloc.SimAlloc (reuse after death is a recorded decision)",
            "generated index names -> seeded (NameSeam)",
        ],
    }
    ASSUMPTIONS = [
        "scipy.linalg.expm and dense tensordot are the reference; L <= 6",
        "periodic runs use cutoff=1e-13 (nothing caps the bond there) and are compared at 1e-8",
        "odd periodic chains: only first-order convergence is judged, as the property states",
    ]

    # ------------------------------------------------------------------ knobs
    @staticmethod
    def draw_knobs(S):
        r = S["knobs"]
        cyclic = r.random() < 0.35
        L = r.choice([3, 4, 4, 5, 6]) if cyclic else r.choice([2, 3, 4, 4, 5, 5, 6])
        return {
            "L": L,
            "cyclic": cyclic,
            "h2_form": r.choice(["dict", "dict", "dict_rev", "default", "default+override"]),
            "h1_form": r.choice(["none", "array", "dict", "default+override"]),
            "real": r.random() < 0.3,
            "ham_seed": r.randrange(2**31),
            "max_steps": r.choice([4, 6, 8]) if cyclic else r.choice([5, 8, 12]),
            "reuse": r.random() < 0.5,
            "mix": r.choice(["evolve", "evolve", "ham", "both"]),
            # a general-graph LocalHamGen (no TEBD on it): term merging, single
            # site term distribution over all covering edges, caches
            "graph": r.random() < 0.12,
            "graph_seed": r.randrange(2**31),
            # progress bars (the library default) thread a bar object through
            # step(); the real tqdm classes run with output disabled
            "progbar": r.random() < 0.3,
        }

    # ------------------------------------------------------------------ setup
    def __init__(self, knobs, stats):
        super().__init__(knobs, stats)
        import quimb.tensor as qtn
        import quimb.tensor.tnag.tebd as tebd_mod

        self.qtn = qtn
        self.tebd_mod = tebd_mod
        self.names = NameSeam()
        self.alloc = SimAlloc(stats)
        self._had_id = "id" in tebd_mod.__dict__
        self._old_id = tebd_mod.__dict__.get("id")
        tebd_mod.id = self.alloc.key
        self._unpatch_bars = None
        if knobs.get("progbar"):
            import functools

            import quimb.tensor.tn1d.tebd as t1d

            saved = (t1d.continuous_progbar, t1d.Progbar)
            t1d.continuous_progbar = functools.partial(saved[0], disable=True)
            t1d.Progbar = functools.partial(saved[1], disable=True)

            def unpatch():
                t1d.continuous_progbar, t1d.Progbar = saved

            self._unpatch_bars = unpatch
            stats.probe("progbar_runs")
        self.L = knobs["L"]
        self.cyclic = knobs["cyclic"]
        self.model, self.ham = self._build_ham()
        self.tebds = []  # list of dict(obj, psi, t, err, imag, gen)
        self.evolved = 0.0

    def close(self):
        if getattr(self, "_unpatch_bars", None):
            self._unpatch_bars()
        m = self.tebd_mod
        if self._had_id:
            m.id = self._old_id
        else:
            try:
                del m.id
            except AttributeError:
                pass
        self.names.remove()

    @classmethod
    def warmup(cls):
        from sim import engine

        for s in range(24):
            engine.run_seed(cls, 960_000_000 + s)

    @staticmethod
    def nontrivial(trace, stats):
        return stats.probes.get("multi_step_evolution", 0) >= 1 or stats.faults.get("address_reuse", 0) >= 1

    def abstract_state(self):
        return (len(self.tebds), tuple(round(t["t"], 6) for t in self.tebds), round(self.model.scale, 3))

    # ---------------------------------------------------------------- ham
    def _rand_op(self, rng, n):
        real = self.knobs["real"]
        A = rng.uniform(-1, 1, size=(n, n))
        if not real:
            A = A + 1j * rng.uniform(-1, 1, size=(n, n))
        H = (A + A.conj().T) / 2
        return H if not real else H.astype(float)

    def _build_graph_ham(self):
        """LocalHamGen on a random connected graph with string node labels."""
        kn = self.knobs
        rs = data_rng(kn["graph_seed"])
        rng = data_rng(kn["ham_seed"])
        n = int(rs.integers(3, 6))
        self.L = n
        self.cyclic = False
        labels = [f"s{i}" for i in range(n)]  # sorted order == integer order
        edges = set()
        for i in range(1, n):
            edges.add((int(rs.integers(i)), i))
        for _ in range(int(rs.integers(0, 3))):
            a, b = sorted(int(x) for x in rs.choice(n, size=2, replace=False))
            edges.add((a, b))
        h2, arg2 = {}, {}
        for (a, b) in sorted(edges):
            G = self._rand_op(rng, 4)
            if rs.random() < 0.4:
                arg2[(labels[b], labels[a])] = G
                h2[(b, a)] = G.copy()
            else:
                arg2[(labels[a], labels[b])] = G
                h2[(a, b)] = G.copy()
        if rs.random() < 0.3:
            # the same edge supplied in both orders: the two must be merged
            (a, b) = sorted(edges)[0]
            if (a, b) in h2:
                G = self._rand_op(rng, 4)
                arg2[(labels[b], labels[a])] = G
                h2[(b, a)] = G.copy()
        h1, arg1 = {}, None
        f1 = kn["h1_form"]
        if f1 == "array":
            A = self._rand_op(rng, 2)
            arg1 = A
            h1 = {s: A.copy() for s in range(n)}
        elif f1 != "none":
            arg1 = {}
            if f1 == "default+override":
                A = self._rand_op(rng, 2)
                arg1[None] = A
                h1 = {s: A.copy() for s in range(n)}
            for s_ in range(n):
                if rs.random() < 0.5:
                    B = self._rand_op(rng, 2)
                    arg1[labels[s_]] = B
                    h1[s_] = B.copy()
        model = HamModel(n, False, h2, h1)
        st, ham = self.call(lambda: self.qtn.LocalHamGen(H2=arg2, H1=arg1))
        if st == "rejected":
            raise Violation("C11/rejected_valid_input", repr(ham))
        del arg1, arg2
        self.labels = labels
        return model, _RelabelledHam(ham, labels)

    def _build_ham(self):
        kn = self.knobs
        if kn.get("graph"):
            return self._build_graph_ham()
        L, cyclic = self.L, self.cyclic
        rng = data_rng(kn["ham_seed"])
        nb = L if cyclic else L - 1
        bonds = [(i, (i + 1) % L) for i in range(nb)]
        if L == 2 and cyclic:
            bonds = [(0, 1)]
        h2 = {}
        form = kn["h2_form"]
        arg2 = None
        if form in ("dict", "dict_rev"):
            arg2 = {}
            for n, (a, b) in enumerate(bonds):
                G = self._rand_op(rng, 4)
                if form == "dict_rev" and n % 2:
                    arg2[(b, a)] = G
                    h2[(b, a)] = G.copy()
                else:
                    arg2[(a, b)] = G
                    h2[(a, b)] = G.copy()
        else:
            D = self._rand_op(rng, 4)
            if form == "default" and kn["h1_form"] == "none":
                self.raw_h2 = D.copy()  # what a caller may hand to TEBD directly
            arg2 = {None: D} if form == "default+override" else D
            for a, b in bonds:
                h2[(a, b)] = D.copy()
            if form == "default+override":
                a, b = bonds[len(bonds) // 2]
                G = self._rand_op(rng, 4)
                arg2[(a, b)] = G
                h2[(a, b)] = G.copy()
        h1 = {}
        f1 = kn["h1_form"]
        arg1 = None
        if f1 == "array":
            A = self._rand_op(rng, 2)
            arg1 = A
            h1 = {s: A.copy() for s in range(L)}
        elif f1 == "dict":
            arg1 = {}
            for s in range(L):
                if rng.uniform() < 0.7:
                    A = self._rand_op(rng, 2)
                    arg1[s] = A
                    h1[s] = A.copy()
        elif f1 == "default+override":
            A = self._rand_op(rng, 2)
            B = self._rand_op(rng, 2)
            arg1 = {None: A, L // 2: B}
            h1 = {s: A.copy() for s in range(L)}
            h1[L // 2] = B.copy()
        model = HamModel(L, cyclic, h2, h1)
        st, ham = self.call(lambda: self.qtn.LocalHam1D(L, H2=arg2, H1=arg1, cyclic=cyclic))
        if st == "rejected":
            raise Violation("C11/rejected_valid_input", repr(ham))
        del arg1, arg2  # the user keeps no reference to the supplied arrays
        return model, ham

    # ------------------------------------------------------------ generation
    def gen_op(self, S):
        r = S["ops"]
        kn = self.knobs
        mix = kn["mix"]
        reuse = kn["reuse"] and r.random() < 0.7
        npairs = len(self.model.pairs())
        c = r.random()
        if kn.get("graph"):
            k = wchoice(r, [("expm", 4), ("terms_check", 2), ("apply_to_arrays", 2), ("get_gate", 2), ("trotter_gates", 1)])
            mix = "graph"
        elif not self.tebds and (mix != "ham" or c < 0.3):
            return self._gen_new(r)
        ham_ops = [("expm", 4), ("terms_check", 1), ("apply_to_arrays", 2), ("get_gate", 1), ("trotter_gates", 1)]
        evo_ops = [("update_to", 6), ("step", 2), ("at_times", 2), ("gen_next", 2), ("new_tebd", 1), ("convergence", 0.3)]
        if mix == "graph":
            pass
        elif mix == "ham":
            table = ham_ops + [("update_to", 1)]
            k = wchoice(r, table)
        elif mix == "evolve":
            table = evo_ops + [("expm", 1), ("apply_to_arrays", 0.7)]
            k = wchoice(r, table)
        else:
            table = ham_ops + evo_ops
            k = wchoice(r, table)
        if k in ("update_to", "step", "at_times", "gen_next", "convergence") and not self.tebds:
            return self._gen_new(r)
        if k == "new_tebd":
            if len(self.tebds) >= 2:
                k = "update_to"
            else:
                return self._gen_new(r)
        if k == "expm":
            x = pick(r, [-0.1, -0.05j, -0.1j, 0.2, -0.025j, 0.3 - 0.1j])
            return {"k": "expm", "pair": r.randrange(npairs), "x": [x.real, x.imag] if isinstance(x, complex) else [x, 0.0],
                    "reuse": reuse, "rev": r.random() < 0.15}
        if k == "get_gate":
            return {"k": "get_gate", "pair": r.randrange(npairs), "rev": r.random() < 0.3}
        if k == "terms_check":
            return {"k": "terms_check"}
        if k == "trotter_gates":
            return {"k": "trotter_gates", "order": pick(r, [1, 2, 4]), "x": pick(r, [-0.1, 0.05])}
        if k == "apply_to_arrays":
            return {"k": "apply_to_arrays", "fn": pick(r, ["scale2", "scale_half", "copy", "complex"]), "reuse": reuse}
        ti = r.randrange(len(self.tebds))
        order = pick(r, [1, 2, 2, 4])
        dt = pick(r, [0.05, 0.1, 0.13, 0.2])
        if k == "update_to":
            kind = wchoice(r, [("multiple", 3), ("non_multiple", 4), ("tiny", 1), ("same", 1),
                               ("behind_tol", 0.7), ("backwards", 0.7)])
            nsteps = r.choice([1, 2, 3]) if self.cyclic else r.choice([1, 2, 3, 5])
            return {"k": "update_to", "tebd": ti, "kind": kind, "nsteps": nsteps, "dt": dt,
                    "order": order, "use_tol": r.random() < 0.15, "frac": round(r.uniform(0.1, 0.9), 3),
                    "reuse": reuse}
        if k == "step":
            return {"k": "step", "tebd": ti, "order": order, "dt": pick(r, [None, dt]), "reuse": reuse}
        if k == "at_times":
            n = r.choice([1, 2, 3])
            return {"k": "at_times", "tebd": ti, "fracs": sorted(round(r.uniform(0.3, 2.2), 3) for _ in range(n)),
                    "dt": dt, "order": order, "shuffle": r.random() < 0.3}
        if k == "gen_next":
            return {"k": "gen_next", "tebd": ti, "abandon": r.random() < 0.3, "reuse": reuse}
        if k == "convergence":
            return {"k": "convergence", "order": pick(r, [1, 2, 4]), "imag": False, "seed": r.randrange(2**31)}
        raise HarnessError(k)

    def _gen_new(self, r):
        return {"k": "new_tebd", "imag": r.random() < 0.3, "t0": pick(r, [0.0, 0.0, 0.37, -0.2]),
                "bond": r.choice([1, 2, 3]), "psi_seed": r.randrange(2**31),
                "default": pick(r, ["dt", "dt", "tol", "none"]), "dt": pick(r, [0.05, 0.1, 0.2]),
                # hand TEBD the bare two-site array (it wraps it itself) when
                # the Hamiltonian is one uniform term
                "raw_h": r.random() < 0.5}

    # ------------------------------------------------------------- execution
    def apply(self, op):
        if self.knobs.get("graph") and op["k"] in ("new_tebd", "update_to", "step", "at_times", "gen_next", "convergence"):
            raise Skip()
        self.alloc.reuse = bool(op.get("reuse"))
        try:
            fn = getattr(self, "_op_" + op["k"], None)
            if fn is None:
                raise Skip()
            fn(op)
        finally:
            self.alloc.reuse = False

    def _pair(self, op):
        ps = self.model.pairs()
        return ps[op["pair"] % len(ps)]

    # .. Hamiltonian object ......................................................
    def _op_terms_check(self, op=None):
        L = self.L
        terms = self.ham.terms
        want_keys = set(self.model.pairs())
        if set(terms) != want_keys:
            raise Violation("C11/ham_terms_keys", f"{sorted(terms)} vs {sorted(want_keys)}")
        H = np.zeros((2**L, 2**L), dtype=complex)
        for (a, b), G in terms.items():
            H += embed2(np.asarray(G), a, b, L)
        Hm = self.model.dense()
        d = maxdiff(H, Hm)
        if not d <= 1e-10 * max(1.0, np.abs(Hm).max()):
            raise Violation("C11/ham_sum", f"sum of stored terms differs from the supplied H2+H1 by {d:.3g}")
        self.stats.probe("ham_sum_checks")
        self.note("terms_ok")

    def _op_get_gate(self, op):
        a, b = self._pair(op)
        where = (b, a) if op.get("rev") else (a, b)
        st, G = self.call(lambda: self.ham.get_gate(where))
        if st == "rejected":
            raise Skip()
        want = self.model.ordered_term(*where)
        d = maxdiff(np.asarray(G), want)
        if not d <= 1e-10 * max(1.0, float(np.abs(want).max())):
            raise Violation("C11/get_gate" + (":reversed" if op.get("rev") else ""),
                            f"get_gate({where}) differs from the term for that ordered pair by {d:.3g}")
        self.note("gate_ok")

    def _op_expm(self, op):
        a, b = self._pair(op)
        where = (b, a) if op.get("rev") else (a, b)
        x = complex(*op["x"])
        if x.imag == 0:
            x = x.real
        st, U = self.call(lambda: self.ham.get_gate_expm(where, x))
        if st == "rejected":
            raise Skip()
        cur = np.array(self.ham.terms[(a, b)])  # value copy of the *current* term
        if op.get("rev"):
            cur = cur.reshape(2, 2, 2, 2).transpose(1, 0, 3, 2).reshape(4, 4)
        want = sla.expm(x * cur)
        d = maxdiff(np.asarray(U), want)
        # (relative: after repeated scaling of the terms the entries of the
        # exponential reach 1e7 and more)
        if not d <= 1e-9 * max(1.0, float(np.abs(want).max())):
            raise Violation("C11/get_gate:reversed" if op.get("rev") else "C11/expm_stale",
                            f"get_gate_expm({where}, {x}) != expm(x * current term for that ordered pair), max|diff|={d:.3g}")
        self.stats.probe("expm_checks")
        self.note("expm_ok")

    def _op_trotter_gates(self, op):
        st, gates = self.call(lambda: list(self.ham.get_trotter_gates(op["x"], order=op["order"])))
        if st == "rejected":
            raise Skip()
        # product of all gates, applied in order, vs my own product formula is
        # only defined up to the layer colouring; judge each gate on its own
        for g in gates:
            U, where = g
            a, b = where
            cur = np.array(self.ham.terms[tuple(sorted(where))])
            if (a, b) != tuple(sorted(where)):
                cur = cur.reshape(2, 2, 2, 2).transpose(1, 0, 3, 2).reshape(4, 4)
            # each gate must be an exponential of its term with a real multiple of x
            lam = None
            nrm = np.linalg.norm(cur)
            if nrm > 1e-12:
                Lg = sla.logm(np.asarray(U))
                lam = np.vdot(cur, Lg) / np.vdot(cur, cur)
                if not maxdiff(sla.expm(lam * cur), np.asarray(U)) <= 1e-8 * max(1.0, float(np.abs(np.asarray(U)).max())):
                    raise Violation("C11/trotter_gate", f"gate on {where} is not an exponential of its term")
        tot = {}
        for U, where in gates:
            cur = np.array(self.ham.terms[tuple(sorted(where))])
            if tuple(where) != tuple(sorted(where)):
                cur = cur.reshape(2, 2, 2, 2).transpose(1, 0, 3, 2).reshape(4, 4)
            Lg = sla.logm(np.asarray(U))
            lam = np.vdot(cur, Lg) / np.vdot(cur, cur)
            tot[tuple(sorted(where))] = tot.get(tuple(sorted(where)), 0) + lam
        for w, lam in tot.items():
            if not abs(lam - op["x"]) <= 1e-7:
                raise Violation("C11/trotter_gate", f"coefficients for term {w} sum to {lam}, not {op['x']}")
        self.note("trotter_ok", len(gates))

    def _op_apply_to_arrays(self, op):
        alloc = self.alloc
        kind = op["fn"]
        fac = {"scale2": 2.0, "scale_half": 0.5}.get(kind, 1.0)

        def fn(x):
            if kind == "complex":
                y = np.asarray(x).astype(complex)
            elif kind == "copy":
                y = np.array(x)
            else:
                y = np.asarray(x) * fac
            # the new array exists from here on: give it its address now, so a
            # re-issued address can only be one whose owner is already dead
            alloc.born(y)
            return y

        n_free_before = len(alloc.free)
        st, _ = self.call(lambda: self.ham.apply_to_arrays(fn))
        if st == "rejected":
            raise Skip()
        self.model.scale *= fac
        for t in self.tebds:
            t["ham_changed"] = True
        self.stats.fault("terms_replaced")
        self._op_terms_check()
        self.note("applied", kind)

    # .. evolutions .............................................................
    def _op_new_tebd(self, op):
        if len(self.tebds) >= 2:
            self.tebds.pop(0)
        qtn = self.qtn
        L = self.L
        psi0 = qtn.MPS_rand_state(L, op["bond"], phys_dim=2, cyclic=self.cyclic,
                                  seed=op["psi_seed"], dtype="complex128")
        dense0 = np.asarray(psi0.to_dense()).reshape(-1)
        kw = {}
        if op["default"] == "dt":
            kw["dt"] = op["dt"]
        elif op["default"] == "tol":
            kw["tol"] = 1e-3
        cutoff = 1e-13 if self.cyclic else 0.0
        private = None
        hamarg = self.ham
        if op.get("raw_h") and getattr(self, "raw_h2", None) is not None:
            import copy as _copy

            hamarg = self.raw_h2.copy()
            private = _copy.copy(self.model)
            private.scale = 1.0  # its own terms: later apply_to_arrays on the shared object do not reach it
            self.stats.probe("tebd_from_raw_two_site_array")
        st, tebd = self.call(lambda: qtn.TEBD(psi0, hamarg, t0=op["t0"], imag=op["imag"],
                                              progbar=bool(self.knobs.get("progbar")),
                                              split_opts={"cutoff": cutoff}, **kw))
        if st == "rejected":
            raise Violation("C11/rejected_valid_input", repr(tebd))
        self.tebds.append({"obj": tebd, "psi": dense0 / np.linalg.norm(dense0), "t": op["t0"], "err": 0.0,
                           "imag": op["imag"], "gen": None, "default": op["default"], "dt": op["dt"],
                           "ham_norm": (private or self.model).mean_norm(), "scale0": self.model.scale,
                           "model": private})
        if private is not None:
            self.tebds[-1]["scale0"] = None  # never equal to the shared scale: see choose_time_step
        self._check_state(self.tebds[-1], "construction")

    def _T(self, op):
        return self.tebds[op["tebd"] % len(self.tebds)]

    def _charge(self, T, nsteps, order):
        """Nothing caps the bond of a periodic MPS under exact splitting (it
        doubles per gate), so each periodic TEBD object has a sweep budget."""
        if not self.cyclic:
            return
        cost = nsteps * {1: 2, 2: 2, 4: 11}[order] + (1 if order > 1 else 0)
        # imaginary time on a periodic chain also computes the full norm after
        # every sweep, which is expensive for the large bonds reached here
        if T.get("sweeps", 0) + cost > (5 if T["imag"] else 11):
            raise Skip()
        T["sweeps"] = T.get("sweeps", 0) + cost

    def _model_evolve(self, T, target, dt, order):
        """Own statement of update_to: full steps while t < T - dt, then one
        final step of T - t."""
        t = T["t"]
        psi = T["psi"]
        n = 0
        while t < target - dt:
            psi = model_step(psi, T.get("model") or self.model, order, dt, T["imag"])
            if T["imag"]:
                psi = psi / np.linalg.norm(psi)
            t += dt
            T["err"] += T["ham_norm"] * dt ** (order + 1)
            n += 1
            if n > 200:
                raise HarnessError("model: too many steps")
        dtf = target - t
        psi = model_step(psi, T.get("model") or self.model, order, dtf, T["imag"])
        if T["imag"]:
            psi = psi / np.linalg.norm(psi)
        T["err"] += T["ham_norm"] * dtf ** (order + 1)
        t += dtf
        T["psi"], T["t"] = psi, t
        self.evolved += abs(n * dt) + abs(dtf)
        self.stats.sim_time += abs(n * dt) + abs(dtf)
        if n >= 1:
            self.stats.probe("multi_step_evolution")
        return n + 1

    def _odd_cyclic(self):
        return self.cyclic and self.L % 2 == 1

    def _op_update_to(self, op):
        T = self._T(op)
        if T["gen"] is not None:
            raise Skip()
        tebd = T["obj"]
        dt = op["dt"]
        order = op["order"]
        kind = op["kind"]
        t = T["t"]
        if kind == "multiple":
            target = t + op["nsteps"] * dt
        elif kind == "non_multiple":
            target = t + (op["nsteps"] - 1 + op["frac"]) * dt
        elif kind == "tiny":
            target = t + op["frac"] * dt * 0.1
        elif kind == "same":
            target = t
        elif kind == "behind_tol":
            target = t - 5e-14
        else:
            target = t - 0.3
        kw = {"order": order}
        use_tol = op.get("use_tol") and T["default"] != "dt" and kind in ("multiple", "non_multiple")
        if use_tol:
            tol = 1e-2
            kw["tol"] = tol
            if T["default"] == "tol":
                pass
            st0, dt_eff = self.call(lambda: tebd.choose_time_step(tol, target - tebd.t, order))
            if st0 == "rejected":
                raise Skip()
            mine = (tol / ((target - t) * T["ham_norm"])) ** (1 / order)
            if T["scale0"] == self.model.scale and not abs(dt_eff - mine) <= 1e-9 * abs(mine):
                raise Violation("C11/choose_time_step", f"{dt_eff} vs documented formula {mine}")
            dt = float(dt_eff)
            if (target - t) / dt > 40:
                raise Skip()
        else:
            if T["default"] == "tol":
                raise Skip()  # dt and tol both set -> rejected by design; not interesting
            kw["dt"] = dt
        if kind not in ("backwards",):
            nst = 1 if target - t <= dt else int(math.ceil((target - t) / dt))
            self._charge(T, nst, order)
        # (progbar=None: the object's own setting)
        st, res = self.call(lambda: tebd.update_to(target, progbar=None if self.knobs.get("progbar") else False, **kw))
        if st == "rejected":
            if kind == "backwards":
                self.stats.probe("backwards_rejected")
                self._check_state(T, "rejected backwards update")
                return
            raise Violation("C11/rejected_valid_input", f"update_to({target}, {kw}) from t={t}: {res!r}")
        if kind == "backwards":
            raise Violation("C11/time", f"update_to({target}) from t={t} was accepted")
        if T["scale0"] != self.model.scale and T.get("ham_changed"):
            # terms were replaced after this TEBD was built: its cached norm
            # estimate is its own business, only the evolution is judged
            pass
        self._model_evolve(T, max(target, t) if kind == "behind_tol" else target, dt, order)
        if kind == "behind_tol":
            T["t"] = tebd.t
        self._check_state(T, f"update_to({kind}, order={order})", check_err=not T.get("ham_changed"))

    def _op_step(self, op):
        T = self._T(op)
        if T["gen"] is not None:
            raise Skip()
        tebd = T["obj"]
        dt = op["dt"]
        if dt is None:
            if getattr(tebd, "_dt", None) is None:
                raise Skip()
            dt_eff = tebd._dt
        else:
            dt_eff = dt
            if getattr(tebd, "_dt", None) is None:
                raise Skip()  # sweep scales by dt / self._dt
        self._charge(T, 1, op["order"])
        st, res = self.call(lambda: tebd.step(order=op["order"], dt=dt))
        if st == "rejected":
            raise Skip()
        psi = model_step(T["psi"], T.get("model") or self.model, op["order"], dt_eff, T["imag"])
        if T["imag"]:
            psi = psi / np.linalg.norm(psi)
        T["psi"] = psi
        T["t"] += dt_eff
        T["err"] += T["ham_norm"] * dt_eff ** (op["order"] + 1)
        self.stats.sim_time += abs(dt_eff)
        self._check_state(T, f"step(order={op['order']})", check_err=not T.get("ham_changed"))

    def _op_at_times(self, op):
        T = self._T(op)
        if T["gen"] is not None or T["default"] == "tol":
            raise Skip()
        t = T["t"]
        ts = [t + f * op["dt"] for f in op["fracs"]]
        arg = list(reversed(ts)) if op.get("shuffle") else list(ts)
        st, gen = self.call(lambda: T["obj"].at_times(arg, dt=op["dt"], order=op["order"],
                                                       progbar=None if self.knobs.get("progbar") else False))
        if st == "rejected":
            raise Skip()
        T["gen"] = {"it": gen, "ts": sorted(ts), "dt": op["dt"], "order": op["order"], "pos": 0}
        self.note("at_times", len(ts))

    def _op_gen_next(self, op):
        T = self._T(op)
        g = T["gen"]
        if g is None:
            raise Skip()
        if op.get("abandon"):
            g["it"].close()
            T["gen"] = None
            self.stats.fault("generator_abandoned")
            self._check_state(T, "abandoned at_times generator")
            return
        if g["pos"] < len(g["ts"]):
            tgt = g["ts"][g["pos"]]
            nst = 1 if tgt - T["t"] <= g["dt"] else int(math.ceil((tgt - T["t"]) / g["dt"]))
            self._charge(T, nst, g["order"])
        st, pt = self.call(lambda: next(g["it"], None))
        if st == "rejected":
            raise Violation("C11/rejected_valid_input", repr(pt))
        if pt is None:
            if g["pos"] != len(g["ts"]):
                raise Violation("C11/at_times", f"generator stopped after {g['pos']} of {len(g['ts'])} times")
            T["gen"] = None
            return
        if g["pos"] >= len(g["ts"]):
            raise Violation("C11/at_times", "generator yielded more states than times")
        target = g["ts"][g["pos"]]
        g["pos"] += 1
        self._model_evolve(T, target, g["dt"], g["order"])
        self._check_state(T, f"at_times yield #{g['pos']}", yielded=pt, check_err=not T.get("ham_changed"))

    # .. oracle 3/4 ....................................................................
    def _check_state(self, T, where, yielded=None, check_err=True):
        tebd = T["obj"]
        tol_state = 1e-8 if self.cyclic else 1e-9
        if not abs(tebd.t - T["t"]) <= 1e-12 * max(1.0, abs(T["t"])):
            raise Violation("C11/time", f"after {where}: tebd.t={tebd.t!r} but the requested time is {T['t']!r}")
        got = np.asarray((yielded if yielded is not None else tebd.pt).to_dense()).reshape(-1)
        nrm = np.linalg.norm(got)
        if not abs(nrm - 1.0) <= (1e-7 if self.cyclic else 1e-9):
            raise Violation("C11/norm" + (":imag" if T["imag"] else ":real") + (":cyclic" if self.cyclic else ""),
                            f"after {where}: |psi| = {nrm:.12g}")
        if self._odd_cyclic():
            # only first-order convergence is required there (see `convergence`)
            T["psi"] = got / nrm
            self.note("state_unjudged_odd_cyclic")
            return
        want = T["psi"]
        # global phase is physical here: compare directly
        d = maxdiff(got, want)
        if not d <= tol_state * 10:
            raise Violation("C11/state" + (":imag" if T["imag"] else "") + (":cyclic" if self.cyclic else ""),
                            f"after {where}: state differs from the documented product formula by {d:.3g}")
        if check_err and not abs(tebd.err - T["err"]) <= 1e-9 * max(1e-12, abs(T["err"])) + 1e-15:
            raise Violation("C11/err", f"after {where}: tebd.err={tebd.err!r}, sum of ham_norm*dt^(order+1) = {T['err']!r}")
        self.stats.probe("state_checks")
        self.note("state_ok", where.split("(")[0])

    def _op_convergence(self, op):
        """Stated order: halving the step divides the error against exact
        evolution by about 2^order (first order only demanded on odd periodic
        chains)."""
        qtn = self.qtn
        L = self.L
        order = op["order"]
        Hd = self.model.dense()
        psi0 = qtn.MPS_rand_state(L, 2, phys_dim=2, cyclic=self.cyclic, seed=op["seed"], dtype="complex128")
        d0 = np.asarray(psi0.to_dense()).reshape(-1)
        d0 = d0 / np.linalg.norm(d0)
        nrmH = np.linalg.norm(Hd, 2)
        Tend = 0.2 / max(nrmH, 1e-9) * 4
        exact = sla.expm(-1j * Hd * Tend) @ d0
        errs = []
        if self.cyclic and order == 4:
            raise Skip()  # cost: see _charge
        for n in ((2, 4) if self.cyclic else (4, 8)):
            dt = Tend / n
            cutoff = 1e-13 if self.cyclic else 0.0
            tebd = qtn.TEBD(psi0, self.ham, progbar=False, split_opts={"cutoff": cutoff})
            st, _ = self.call(lambda: tebd.update_to(Tend, dt=dt, order=order, progbar=False))
            if st == "rejected":
                raise Skip()
            got = np.asarray(tebd.pt.to_dense()).reshape(-1)
            errs.append(float(np.linalg.norm(got - exact)))
        need = 1 if self._odd_cyclic() else order
        # odd periodic chains: the right sweep contains two non-commuting gates,
        # so merging consecutive half sweeps is itself a first-order change and
        # with the few steps a periodic chain allows (bond doubling) the error
        # goes like (n-1)/n^2: a factor 1.33 from 2 to 4 steps.  Demand a
        # decrease by 1.15 there; the stated order elsewhere.
        thresh = 1.15 if self._odd_cyclic() else 2 ** (need - 0.5)
        if errs[0] > 1e-8:
            ratio = errs[0] / max(errs[1], 1e-300)
            if not ratio >= thresh:
                raise Violation(f"C11/order:{order}" + (":cyclic" if self.cyclic else ""),
                                f"error {errs[0]:.3g} -> {errs[1]:.3g} when halving dt (ratio {ratio:.2f}, "
                                f"needs >= {thresh:.2f})")
            self.stats.probe("order_checks")
        self.note("conv", order)

    # ------------------------------------------------------------- shrinking
    @staticmethod
    def simplify_op(op):
        if op.get("reuse"):
            yield {**op, "reuse": False}
        if op.get("k") == "update_to":
            if op.get("nsteps", 1) > 1:
                yield {**op, "nsteps": 1}
            if op.get("order") != 1:
                yield {**op, "order": 1}
                yield {**op, "order": 2}
            if op.get("kind") not in ("multiple",):
                yield {**op, "kind": "multiple"}
        if op.get("k") == "new_tebd":
            if op.get("t0"):
                yield {**op, "t0": 0.0}
            if op.get("bond", 1) > 1:
                yield {**op, "bond": 1}

    @staticmethod
    def simplify_knobs(knobs):
        if knobs["L"] > 2 and not knobs["cyclic"]:
            yield {**knobs, "L": knobs["L"] - 1}
        if knobs["L"] > 3 and knobs["cyclic"]:
            yield {**knobs, "L": knobs["L"] - 1}
        if knobs["h1_form"] != "none":
            yield {**knobs, "h1_form": "none"}
        if knobs["h2_form"] != "dict":
            yield {**knobs, "h2_form": "dict"}
        if not knobs["real"]:
            yield {**knobs, "real": True}
