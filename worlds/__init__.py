"""One world per claimed property."""
import importlib

_WORLDS = {
    "C16": ("worlds.c16_thread", "ThreadWorld"),
    "C14": ("worlds.c14_bp", "BPWorld"),
    "C02": ("worlds.c02_net", "NetWorld"),
    "C07": ("worlds.c07_circuit", "CircuitWorld"),
    "C08": ("worlds.c08_mps", "MPSWorld"),
    "C11": ("worlds.c11_tebd", "TEBDWorld"),
    "C18": ("worlds.c18_evo", "EvoWorld"),
}


def get_world(prop):
    mod, cls = _WORLDS[prop]
    return getattr(importlib.import_module(mod), cls)


def all_props():
    return list(_WORLDS)
