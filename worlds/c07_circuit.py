"""CircuitWorld (C07): several circuit objects of all simulator classes, driven
by a seeded interleaving of gate application, parameter updates, forks,
queries, suspended sampler generators, rejected gates, abandoned generators
and interrupted queries.  Oracle: a dense state-vector model built from the
circuit's own gate record.
"""

import math

import numpy as np

from sim.engine import World, Violation, Skip, HarnessError, data_rng, pick, wchoice, maxdiff
from sim.seams import NameSeam
from sim.alloc import SimAlloc
from sim.interrupt import run_interrupted, SimInterrupt

import importlib.util

# sample_gate_by_gate orders gates through networkx, which is not installed in
# this sandbox: the sampler cannot run here and is left out (reported in the
# evidence as a component that did not run)
HAVE_NETWORKX = importlib.util.find_spec("networkx") is not None

EXACT = ("Circuit", "CircuitDense")
MPS = ("CircuitMPS", "CircuitPermMPS", "CircuitMPSLazy")
SPARSE_VOCAB = ["H", "X", "X", "CX", "CX", "CNOT", "CZ", "Z", "S", "CCX", "SWAP", "CY", "Y", "CSWAP", "T", "IDEN"]
P1 = np.array([[0.0, 0.0], [0.0, 1.0]])
SWAP_M = np.array([[1, 0, 0, 0], [0, 0, 1, 0], [0, 1, 0, 0], [0, 0, 0, 1]], dtype=complex)


def apply_dense(psi, U, qubits, N):
    k = len(qubits)
    U = np.asarray(U).reshape((2,) * (2 * k))
    t = psi.reshape((2,) * N)
    out = np.tensordot(U, t, axes=(list(range(k, 2 * k)), list(qubits)))
    rest = [a for a in range(N) if a not in qubits]
    perm = [0] * N
    for n, q in enumerate(qubits):
        perm[q] = n
    for n, a in enumerate(rest):
        perm[a] = k + n
    return out.transpose(perm).reshape(-1)


def controlled(U, ncontrols):
    """|1..1><1..1| (x) U + (1 - |1..1><1..1|) (x) 1, controls first."""
    n = int(round(math.log2(U.shape[0])))
    U = np.asarray(U).reshape(2**n, 2**n)
    if ncontrols == 0:
        return U
    P = np.array([[1.0]])
    for _ in range(ncontrols):
        P = np.kron(P, P1)
    I = np.eye(2**n)
    return np.kron(P, U) + np.kron(np.eye(2**ncontrols) - P, I)


def rand_unitary(rng, n):
    A = rng.normal(size=(n, n)) + 1j * rng.normal(size=(n, n))
    Q, R = np.linalg.qr(A)
    return Q * (np.diag(R) / np.abs(np.diag(R)))


class CircuitWorld(World):
    PROP = "C07"
    NAME = "circuit"
    LEVEL = "exploration"
    SIM_TIME_UNIT = "operations (public calls and generator advances)"
    RUNS = {"quick": 10000, "thorough": 400000}
    WALL_CAP = {"quick": 1200, "thorough": 3300}
    SHRINK_BUDGET = 60
    RULE = (
        "one run = up to 3 circuit objects (Circuit with a drawn contract mode, "
        "CircuitDense, CircuitMPS, CircuitPermMPS, CircuitMPSLazy; 2-5 qubits) and a "
        "seeded interleaving of gates from the full registered vocabulary (drawn "
        "parameters, controls, raw unitaries, SWAP/IDEN, parametrize), parameter "
        "updates, forks, every query, suspended sampler generators, rejected gates "
        "and interrupted queries; non-trivial = >= 3 gates accepted and >= 2 queries "
        "checked; distinct = different digest of (knobs, ops, verdict observations)"
    )
    COMPONENTS = {
        "real": [
            "quimb.tensor.circuit: gate registry and builders, Gate, apply_gate(_raw/s), controlled and special gate application, all five simulator classes, parameter updates, copy()",
            "all queries: to_dense, amplitude, uni, partial_trace, local_expectation, compute_marginal, get_psi_simplified, get_rdm_lightcone_simplified, fidelity_estimate, sample / sample_chaotic / sample_gate_by_gate / CircuitMPS.sample generators, with their memo tables",
        ],
        "stub": [
            "asynchronous interruption: sys.settrace tracer raising at a recorded line count inside readers of the exact classes",
            "generated index names -> seeded; numpy RNG seeds of samplers drawn from the run PRNG",
        ],
    }
    ASSUMPTIONS = [
        "dense numpy state-vector model (qubit 0 most significant, controls as projector blocks) is the reference",
        "MPS classes run with cutoff 0 or the documented default 1e-10; compared at 1e-6",
        "samples are only required to have non-zero model probability (no statistical test)",
        "interrupts are injected only into readers of the exact classes (their only side effect is memoisation)",
    ]

    # ------------------------------------------------------------------ knobs
    @staticmethod
    def draw_knobs(S):
        r = S["knobs"]
        return {
            "max_steps": r.choice([8, 12, 18, 25]),
            "classes": sorted(set(r.choice(list(EXACT + MPS)) for _ in range(r.choice([1, 2, 3])))),
            "N": r.choice([2, 3, 3, 4, 4, 5]),
            "storage": r.choice([0, 4, 2**20]),
            "group_size": r.choice([1, 2, 10]),
            "table": r.choice(["gates", "queries", "samplers", "mixed", "mixed"]),
            "interrupts": r.random() < 0.3,
            "controls": r.random() < 0.6,
            "cutoff0": r.random() < 0.5,
            "dtype128": r.random() < 0.5,
            "vocab": r.choice(["all", "all", "sparse"]),
            # a quarter of the runs concentrate on parametrized gates (only
            # ``Circuit`` with non-contracting gate options accepts them):
            # direct and named parameter updates between cached queries
            "params_focus": r.random() < 0.25,
        }

    # ------------------------------------------------------------------ setup
    def __init__(self, knobs, stats):
        super().__init__(knobs, stats)
        import quimb.tensor as qtn
        from quimb.tensor.circuit import gates as G

        self.qtn = qtn
        self.G = G
        self.names = NameSeam()
        self.N = knobs["N"]
        self.circs = []  # dict(obj, cls, applied=[...], gens=[...])
        self.ngates = 0
        self.nqueries = 0
        self._gate_labels = sorted(G.ALL_GATES)

    def close(self):
        for c in self.circs:
            for g in c["gens"]:
                try:
                    g["it"].close()
                except Exception:  # noqa: BLE001
                    pass
        self.names.remove()

    @classmethod
    def warmup(cls):
        from sim import engine

        for s in range(32):
            engine.run_seed(cls, 940_000_000 + s)

    @staticmethod
    def nontrivial(trace, stats):
        return stats.probes.get("gates_accepted", 0) >= 3 and stats.probes.get("queries_checked", 0) >= 2

    def abstract_state(self):
        return tuple((c["cls"], len(c["applied"]), len(c["gens"])) for c in self.circs)

    # ------------------------------------------------------------ generation
    TABLES = {
        "gates": dict(gate=12, query=4, sampler=1, gen_next=2, copy=1, set_params=2, new=1, reject=1, apply_gates=1),
        "queries": dict(gate=5, query=10, sampler=1, gen_next=2, copy=1, set_params=2.5, new=0.5, reject=0.5, apply_gates=0.5),
        "samplers": dict(gate=5, query=3, sampler=4, gen_next=6, copy=3, set_params=1.5, new=0.5, reject=0.5, apply_gates=0.5),
        "mixed": dict(gate=8, query=6, sampler=2, gen_next=3, copy=1.5, set_params=2.5, new=1, reject=1, apply_gates=1),
    }
    for _t in TABLES.values():
        _t["sample_now"] = _t["sampler"]
        _t["named"] = 0.6 * _t["set_params"]
    TABLES["params"] = dict(gate=6, query=9, sampler=0.5, gen_next=1, copy=1, set_params=4, named=4, new=0.3,
                            reject=0.2, apply_gates=0.3, sample_now=1.5)
    QUERIES_EXACT = ["to_dense", "amplitude", "partial_trace", "local_expectation", "compute_marginal",
                     "psi_simplified", "rdm_lightcone", "uni", "local_expectation_list"]
    QUERIES_MPS = ["to_dense", "amplitude", "partial_trace", "local_expectation", "compute_marginal",
                   "fidelity_estimate", "local_expectation_dtype"]

    def _draw_gate(self, r, N, cls):
        G = self.G
        c = r.random()
        sparse = self.knobs.get("vocab") == "sparse"
        if c < 0.12 and not sparse:
            nq = r.choice([1, 1, 2]) if N >= 2 else 1
            g = {"label": "RAW", "nq": nq, "raw_seed": r.randrange(2**31)}
        else:
            # "sparse": gates that keep many amplitudes exactly zero, so that
            # a sample from a wrong distribution shows as an unsupported string
            label = pick(r, SPARSE_VOCAB) if sparse else pick(r, self._gate_labels)
            nq = G.GATE_SIZE[label]
            if nq > N:
                label = pick(r, sorted(G.ONE_QUBIT_GATES))
                nq = 1
            g = {"label": label, "nq": nq}
            npar = self._nparams(label)
            if npar:
                g["params"] = [round(r.uniform(-math.pi, math.pi), 4) for _ in range(npar)]
                # the MPS classes do not support parametrized gates: sent
                # now and then, they must be refused without side effects
                if r.random() < ((0.8 if self.knobs.get("params_focus") else 0.45) if cls in EXACT else 0.12):
                    g["parametrize"] = True
        qs = r.sample(range(N), nq)
        g["qubits"] = qs
        if self.knobs["controls"] and r.random() < 0.2 and N - nq >= 1 and g["label"] not in ("IDEN",):
            rest = [q for q in range(N) if q not in qs]
            g["controls"] = r.sample(rest, r.choice([1, 1, 2]) if len(rest) >= 2 else 1)
            g.pop("parametrize", None)
        if r.random() < 0.2:
            g["round"] = r.randrange(5)
        return g

    def _nparams(self, label):
        G = self.G
        if label in G.CONSTANT_GATES or label in G.SPECIAL_GATES:
            return 0
        return {"U3": 3, "U2": 2, "CU3": 3, "CU2": 2, "FSIM": 2, "FS": 2, "FSIMG": 5, "GIVENS2": 2,
                "XXPLUSYY": 2, "XXMINUSYY": 2, "SU4": 15}.get(label, 1)

    def gen_op(self, S):
        r = S["ops"]
        kn = self.knobs
        if not self.circs:
            return self._gen_new(r)
        table = [(k, w) for k, w in self.TABLES["params" if kn.get("params_focus") else kn["table"]].items()]
        if len(self.circs) >= 3:
            table = [(k, w) for k, w in table if k not in ("new", "copy")]
        k = wchoice(r, table)
        ci = r.randrange(len(self.circs))
        c = self.circs[ci]
        cls = c["cls"]
        N = c["N"]
        if k == "new":
            return self._gen_new(r)
        if k == "gate":
            return {"k": "gate", "circ": ci, "gate": self._draw_gate(r, N, cls),
                    "via": r.choice(["apply_gate", "apply_gate", "kw", "method"])}
        if k == "apply_gates":
            return {"k": "apply_gates", "circ": ci, "gates": [self._draw_gate(r, N, cls) for _ in range(r.choice([2, 3]))]}
        if k == "reject":
            return {"k": "reject", "circ": ci, "what": r.choice(["three_qubit", "controlled_two", "controlled_swap", "controlled_raw"]),
                    "seed": r.randrange(2**31)}
        if k == "copy":
            return {"k": "copy", "circ": ci}
        if k == "named" and cls not in EXACT:
            k = "query"
        if k in ("set_params", "named") and cls in EXACT and not any(g.get("parametrize") for g in c["applied"]):
            lab = pick(r, ["RZ", "RX", "RY", "U3", "RZZ", "FSIM", "CRX", "PHASE"])
            nq = self.G.GATE_SIZE[lab]
            if nq <= N:
                g = {"label": lab, "nq": nq, "params": [round(r.uniform(-3, 3), 4) for _ in range(self._nparams(lab))],
                     "parametrize": True, "qubits": r.sample(range(N), nq)}
                return {"k": "gate", "circ": ci, "gate": g, "via": "apply_gate"}
        if k == "named":
            return self._gen_named(r, ci, c)
        if k == "set_params" and cls not in EXACT:
            k = "query"
        if k == "set_params":
            return {"k": "set_params", "circ": ci, "pick": r.randrange(1 << 16),
                    "params": [round(r.uniform(-3, 3), 4) for _ in range(15)],
                    "how": r.choice(["set_params", "set_params", "update_params_from"])}
        if k == "sampler":
            kinds = ["sample", "sample_chaotic"] + (["sample_gate_by_gate"] if (cls in EXACT and HAVE_NETWORKX) else [])
            return {"k": "sampler", "circ": ci, "kind": pick(r, kinds), "C": r.choice([1, 2, 3]),
                    "seed": r.randrange(2**31), "nmarg": r.randrange(1, N + 1),
                    "order_seed": r.choice([None, r.randrange(2**31)])}
        if k == "gen_next":
            return {"k": "gen_next", "circ": ci, "g": r.randrange(4), "abandon": r.random() < 0.2}
        if k == "sample_now":
            return {"k": "sample_now", "circ": ci, "C": r.choice([2, 4, 8]), "seed": r.randrange(2**31),
                    "order_seed": r.choice([None, r.randrange(2**31), r.randrange(2**31)]),
                    "nsub": r.choice([None, None, max(1, N - 1)]), "group_size": r.choice([1, 1, 2, 10])}
        # query
        q = pick(r, self.QUERIES_EXACT if cls in EXACT else self.QUERIES_MPS)
        op = {"k": "query", "circ": ci, "q": q, "seed": r.randrange(2**31),
              "where": r.sample(range(N), r.choice([1, 1, 2, 2, 3]) if N >= 3 else r.choice([1, 2])),
              "nfix": r.choice([0, 0, 1, 2])}
        if cls in EXACT and r.random() < 0.4:
            # non-default query arguments: the memo tables are keyed by some
            # of them, and a rehearsal of the same query may run first
            op["qopts"] = {"seq": r.choice([None, "R", "", "ADCRS", "DCRS", "ADCRSL"]),
                           "eqn": r.choice([None, None, False]),
                           "optimize": r.choice([None, None, "greedy"]),
                           "reverse": r.random() < 0.3,
                           "rehearse": r.choice([None, None, "tn", True])}
        if cls in MPS and r.random() < 0.4:
            op["qopts"] = {"reverse": r.random() < 0.4, "dtype": r.choice([None, "complex128", "complex64"])}
        if kn["interrupts"] and cls in EXACT and r.random() < 0.35:
            op["interrupt_at"] = int(10 ** r.uniform(0.5, 4.3))
        if q == "uni" and c.get("contract") is True:
            # gates contracted into the initial-state tensors: the operator
            # cannot be recovered (known finding F18) - exercised rarely and
            # on purpose only
            if r.random() < 0.15:
                op["uni_contracted_ok"] = True
            else:
                op["q"] = "to_dense"
        return op

    def _gen_named(self, r, ci, c):
        """Named circuit parameters: register names with expressions that
        drive parametrized gates, or bind new values to registered names."""
        if c.get("named") and r.random() < 0.7:
            names = sorted(c["named"])
            op = {"k": "set_named", "circ": ci,
                  "values": {n: round(r.uniform(-3, 3), 4) for n in r.sample(names, r.randint(1, len(names)))}}
            if r.random() < 0.25:
                op["also_gate"] = {"pick": r.randrange(1 << 16), "params": [round(r.uniform(-3, 3), 4) for _ in range(15)]}
            return op
        nn = r.choice([1, 2, 2, 3])

        def form():
            x = r.random()
            if x < 0.15:
                return ["const", round(r.uniform(-3, 3), 4)]
            if x < 0.3:
                return ["sum", r.randrange(nn), r.randrange(nn)]
            return [r.choice(["str", "str", "fn"]), r.randrange(nn), r.choice([1.0, 1.0, -1.0, 2.0, 0.5]),
                    r.choice([0.0, 0.0, round(r.uniform(-1, 1), 3)])]

        return {"k": "register_named", "circ": ci,
                "names": {n: round(r.uniform(-3, 3), 4) for n in ["a", "b", "c"][:nn]},
                "gates": [{"pick": r.randrange(1 << 16), "forms": [form() for _ in range(15)]}
                          for _ in range(r.choice([1, 1, 2, 3]))]}

    def _gen_new(self, r):
        kn = self.knobs
        cls = pick(r, kn["classes"])
        if kn.get("params_focus"):
            return {"k": "new", "cls": "Circuit", "contract": r.choice(["auto-split-gate", "auto-split-gate", False, "split-gate"])}
        op = {"k": "new", "cls": cls}
        if cls == "Circuit":
            op["contract"] = r.choice(["auto-split-gate", "auto-split-gate", False, True, "split-gate", "swap-split-gate"])
        if cls == "CircuitMPSLazy":
            op["compress_every"] = r.choice([1, 2, 5])
        if r.random() < 0.2:
            # a caller-supplied entangled initial state instead of |0...0>
            op["psi0_seed"] = r.randrange(2**31)
        return op

    # ------------------------------------------------------------- model
    def gate_matrix(self, g, check_unitary=True):
        """(full operator on controls+qubits, ordered qubit list)."""
        G = self.G
        label = g["label"]
        if label == "RAW":
            U = rand_unitary(data_rng(g["raw_seed"]), 2 ** g["nq"])
        elif label == "SWAP":
            U = SWAP_M
        elif label == "IDEN":
            U = np.eye(2)
        else:
            gate = G.Gate(label, g.get("params", ()), qubits=tuple(g["qubits"]))
            U = np.asarray(gate.array, dtype=complex).reshape(2 ** g["nq"], 2 ** g["nq"])
            if check_unitary:
                d = float(np.abs(U.conj().T @ U - np.eye(U.shape[0])).max())
                if d > 1e-10:
                    raise Violation("C07/gate_not_unitary", f"{label}{g.get('params')}: |U^dag U - 1| = {d:.3g}")
        ctr = list(g.get("controls") or [])
        return controlled(U, len(ctr)), ctr + list(g["qubits"])

    def model_state(self, c):
        """State defined by the circuit's own gate record."""
        N = c["N"]
        _, psi = self._psi0(c.get("psi0_seed"), N)
        if psi is None:
            psi = np.zeros(2**N, dtype=complex)
            psi[0] = 1.0
        else:
            psi = psi.astype(complex)
        for g in c["applied"]:
            U, qs = self.gate_matrix(g, check_unitary=False)
            psi = apply_dense(psi, U, qs, N)
        return psi

    def _mutated(self, c):
        """The circuit's state changed (gate accepted, parameters set): keep
        the sequence of states it has held, for suspended samplers."""
        c["mut"] += 1
        c["hist"].append((c["mut"], self.model_state(c)))
        del c["hist"][:-16]

    @staticmethod
    def _states_since(c, start_mut):
        """Every state held since mutation ``start_mut`` (the last one is the
        current state), or None when that reaches back beyond what is kept."""
        h = c["hist"]
        if h[0][0] > start_mut:
            return None
        return [p for m, p in h if m >= start_mut]

    def _check_record(self, c, where):
        gates = [g for g in c["obj"].gates if g.label != "IDEN"]
        applied = [g for g in c["applied"] if g["label"] != "IDEN"]
        if len(gates) != len(applied):
            raise Violation("C07/gate_record", f"{where}: circuit records {len(gates)} gates, {len(applied)} were accepted")
        if c["cls"] == "CircuitPermMPS":
            return  # its record holds physical sites (see DESIGN): only the count is compared
        for n, (have, g) in enumerate(zip(gates, applied)):
            if g["label"] != "RAW" and have.label != g["label"]:
                raise Violation("C07/gate_record", f"{where}: gate {n} recorded as {have.label}, applied {g['label']}")
            if tuple(have.qubits) != tuple(g["qubits"]) or tuple(have.controls or ()) != tuple(g.get("controls") or ()):
                raise Violation("C07/gate_record", f"{where}: gate {n} qubits/controls {have.qubits}/{have.controls} vs applied {g['qubits']}/{g.get('controls')}")

    # ------------------------------------------------------------- execution
    def apply(self, op):
        fn = getattr(self, "_op_" + op["k"], None)
        if fn is None:
            raise Skip()
        fn(op)

    def _circ(self, op):
        if not self.circs:
            raise Skip()
        return self.circs[op["circ"] % len(self.circs)]

    def _psi0(self, seed, N):
        """(MPS to hand to the constructor, its dense vector) or (None, None)."""
        if seed is None:
            return None, None
        mps = self.qtn.MPS_rand_state(N, 2, seed=int(seed) % (2**31), dtype="complex128")
        dense = np.asarray(mps.to_dense()).reshape(-1)
        return mps, dense

    def _construct(self, cls, N, contract, compress_every, psi0_seed):
        qtn = self.qtn
        cutoff = 0.0 if self.knobs["cutoff0"] else 1e-10
        psi0, _ = self._psi0(psi0_seed, N)
        kw = {"psi0": psi0} if psi0 is not None else {}
        if cls == "Circuit":
            return qtn.Circuit(N, gate_opts={"contract": contract if contract is not None else "auto-split-gate"}, **kw)
        if cls == "CircuitDense":
            return qtn.CircuitDense(N, **kw)
        if cls == "CircuitMPS":
            return qtn.CircuitMPS(N, cutoff=cutoff, **kw)
        if cls == "CircuitPermMPS":
            return qtn.CircuitPermMPS(N, cutoff=cutoff, **kw)
        return qtn.CircuitMPSLazy(N, cutoff=cutoff, compress_every=compress_every, **kw)

    def _op_new(self, op):
        cls = op["cls"]
        N = self.N
        st, obj = self.call(lambda: self._construct(cls, N, op.get("contract"), op.get("compress_every", 2),
                                                    op.get("psi0_seed")))
        if st == "rejected":
            raise Violation("C07/rejected_valid_input", repr(obj))
        if len(self.circs) >= 3:
            old = self.circs.pop(0)
            for g in old["gens"]:
                g["it"].close()
        self.circs.append({"obj": obj, "cls": cls, "N": N, "applied": [], "gens": [],
                           "contract": op.get("contract"), "compress_every": op.get("compress_every", 2),
                           "psi0_seed": op.get("psi0_seed"), "mut": 0, "hist": []})
        self.circs[-1]["hist"].append((0, self.model_state(self.circs[-1])))
        if op.get("psi0_seed") is not None:
            self.stats.probe("custom_initial_state")
        self.note("new", cls)

    def _call_gate(self, c, g, via="apply_gate"):
        circ = c["obj"]
        kw = {}
        if g.get("controls"):
            kw["controls"] = tuple(g["controls"])
        if g.get("round") is not None:
            kw["gate_round"] = g["round"]
        if g.get("parametrize"):
            kw["parametrize"] = True
        if g["label"] == "RAW":
            U = rand_unitary(data_rng(g["raw_seed"]), 2 ** g["nq"])
            kw.pop("parametrize", None)
            return lambda: circ.apply_gate_raw(U, tuple(g["qubits"]), **kw)
        params = list(g.get("params", ()))
        if via == "kw":
            return lambda: circ.apply_gate(g["label"], params=params, qubits=tuple(g["qubits"]), **kw)
        if via == "method" and hasattr(circ, g["label"].lower()) and not kw.get("controls"):
            m = getattr(circ, g["label"].lower())
            kw2 = {k: v for k, v in kw.items() if k in ("gate_round", "parametrize")}
            if not params:
                kw2.pop("parametrize", None)
            return lambda: m(*params, *g["qubits"], **kw2)
        return lambda: circ.apply_gate(g["label"], *params, *g["qubits"], **kw)

    def _op_gate(self, op, g=None, via=None):
        c = self._circ(op)
        g = g or op["gate"]
        if any(q >= c["N"] for q in g["qubits"] + list(g.get("controls") or [])):
            raise Skip()
        self.gate_matrix(g)  # unitarity of the registered gate for these parameters
        st, res = self.call(self._call_gate(c, g, via or op.get("via", "apply_gate")))
        if st == "rejected":
            # the class does not support it: its record must not contain it,
            # and every later query still has to match the recorded gates
            self.stats.fault("gate_rejected")
            self.stats.probe("rejected:" + c["cls"] + ":" + ("ctrl" if g.get("controls") else g["label"] if g["label"] in ("SWAP", "IDEN", "RAW") else f"{g['nq']}q"))
            self._check_record(c, f"rejected {g['label']}")
            c["after_reject"] = True
            self.note("rejected", g["label"])
            return
        if g["label"] == "IDEN" and len(c["obj"].gates) == len(c["applied"]):
            # `circ.iden(i)` is a no-op that is not even recorded: gate
            # indices (set_params) follow the circuit's own record
            self.note("iden_unrecorded")
            return
        c["applied"].append(g)
        self._mutated(c)
        self.ngates += 1
        self.stats.probe("gates_accepted")
        self._check_record(c, f"{g['label']}")
        self.note("gate", g["label"])

    def _op_apply_gates(self, op):
        c = self._circ(op)
        circ = c["obj"]
        gs = [g for g in op["gates"] if all(q < c["N"] for q in g["qubits"] + list(g.get("controls") or []))]
        gs = [{k: v for k, v in g.items() if k != "parametrize"} for g in gs]
        gs = [g for g in gs if g["label"] != "RAW"]
        if not gs:
            raise Skip()
        tuples = []
        for g in gs:
            self.gate_matrix(g)
            if g.get("controls"):
                tuples.append(self.G.Gate(g["label"], g.get("params", ()), qubits=tuple(g["qubits"]),
                                          controls=tuple(g["controls"])))
            else:
                tuples.append((g["label"], *g.get("params", ()), *g["qubits"]))
        n0 = len(circ.gates)
        st, res = self.call(lambda: circ.apply_gates(tuples))
        n1 = len(circ.gates)
        # whatever prefix was accepted is what the record says
        c["applied"].extend(gs[: n1 - n0])
        if n1 > n0:
            self._mutated(c)
        if st == "rejected":
            self.stats.fault("gate_rejected")
            c["after_reject"] = True
        self.stats.probe("gates_accepted", n1 - n0)
        self._check_record(c, "apply_gates")

    def _op_reject(self, op):
        """Gates no class should accept silently, or that some classes do not
        support: whatever happens, the record and the state must agree."""
        c = self._circ(op)
        circ = c["obj"]
        N = c["N"]
        what = op["what"]
        rng = data_rng(op["seed"])
        if False:
            pass
        elif what == "three_qubit":
            if N < 3:
                raise Skip()
            g = {"label": "CCX", "nq": 3, "qubits": [int(x) for x in rng.permutation(N)[:3]]}
            return self._op_gate(op, g=g, via="apply_gate")
        elif what == "controlled_two":
            if N < 3:
                raise Skip()
            qs = [int(x) for x in rng.permutation(N)[:3]]
            g = {"label": "CZ", "nq": 2, "qubits": qs[:2], "controls": qs[2:]}
            return self._op_gate(op, g=g, via="apply_gate")
        elif what == "controlled_swap":
            if N < 3:
                raise Skip()
            qs = [int(x) for x in rng.permutation(N)[:3]]
            g = {"label": "SWAP", "nq": 2, "qubits": qs[:2], "controls": qs[2:]}
            return self._op_gate(op, g=g, via="apply_gate")
        elif what == "controlled_raw":
            if N < 2:
                raise Skip()
            qs = [int(x) for x in rng.permutation(N)[:2]]
            g = {"label": "RAW", "nq": 1, "raw_seed": op["seed"], "qubits": qs[:1], "controls": qs[1:]}
            return self._op_gate(op, g=g, via="apply_gate")
        raise Skip()

    def _op_copy(self, op):
        c = self._circ(op)
        st, new = self.call(lambda: c["obj"].copy())
        if st == "rejected":
            raise Violation("C07/rejected_valid_input", repr(new))
        if len(self.circs) >= 3:
            old = self.circs.pop(0)
            for g in old["gens"]:
                g["it"].close()
        self.circs.append({"obj": new, "cls": c["cls"], "N": c["N"], "applied": list(c["applied"]), "gens": [],
                           "contract": c.get("contract"), "compress_every": c.get("compress_every", 2),
                           "named": dict(c.get("named") or {}), "exprs": dict(c.get("exprs") or {}),
                           "psi0_seed": c.get("psi0_seed"), "mut": c["mut"], "hist": list(c["hist"])})
        self.stats.fault("fork")
        self.note("copy")

    def _op_set_params(self, op):
        c = self._circ(op)
        if c["cls"] not in EXACT:
            raise Skip()
        circ = c["obj"]
        idx = [i for i, g in enumerate(c["applied"]) if g.get("parametrize")]
        if not idx:
            raise Skip()
        i = idx[op["pick"] % len(idx)]
        g = c["applied"][i]
        new = op["params"][: len(g["params"])]
        if op["how"] == "update_params_from":
            if any(h["label"] in ("SWAP", "IDEN", "RAW") or h.get("controls") for h in c["applied"]):
                raise Skip()
            st, tn = self.call(lambda: circ.psi)
            if st == "rejected":
                raise Skip()
            import quimb.tensor as qtn

            def doit():
                t = tn[f"GATE_{i}"]
                t.params = np.asarray(new, dtype=t.params.dtype)
                circ.update_params_from(tn)

            st, res = self.call(doit)
        else:
            st, res = self.call(lambda: circ.set_params({i: np.asarray(new)}))
        if st == "rejected":
            raise Skip()
        c["applied"][i] = {**g, "params": list(new)}
        self._mutated(c)
        self.gate_matrix(c["applied"][i])
        self.stats.fault("params_updated")
        self.note("set_params", i)

    # .. named parameters ........................................................
    @staticmethod
    def _form_value(f, named):
        names = sorted(named)
        nm = lambda j: named[names[j % len(names)]]
        if f[0] == "const":
            return float(f[1])
        if f[0] == "sum":
            return nm(f[1]) + nm(f[2])
        return f[2] * nm(f[1]) + f[3]

    @staticmethod
    def _form_expr(f, named):
        names = sorted(named)
        nm = lambda j: names[j % len(names)]
        if f[0] == "const":
            return float(f[1])
        if f[0] == "sum":
            return f"{nm(f[1])}+{nm(f[2])}"
        if f[0] == "str":
            return f"{f[2]!r}*{nm(f[1])}+{f[3]!r}"
        n, mul, add = nm(f[1]), f[2], f[3]
        return lambda env: mul * env[n] + add

    def _drop_circ(self, c, why):
        for g in c["gens"]:
            g["it"].close()
        self.circs.remove(c)
        self.note("dropped", why)

    def _model_apply_named(self, c):
        for i, forms in c["exprs"].items():
            g = c["applied"][i]
            c["applied"][i] = {**g, "params": [self._form_value(f, c["named"]) for f in forms]}

    def _check_params_record(self, c, where):
        st, got = self.call(lambda: c["obj"].get_params())
        if st == "rejected":
            raise Violation("C07/params_record", f"{where}: get_params raised {got!r}")
        for n, v in c["named"].items():
            if n not in got or abs(complex(np.asarray(got[n]).reshape(-1)[0]) - v) > 1e-9:
                raise Violation("C07/params_record", f"{where}: get_params()[{n!r}] = {got.get(n)!r}, bound value {v}")
        for i, g in enumerate(c["applied"]):
            if g.get("parametrize") and i not in c["exprs"]:
                if i not in got:
                    continue
                have = np.asarray(got[i], dtype=complex).reshape(-1)
                if have.size != len(g["params"]) or np.abs(have - np.asarray(g["params"])).max() > 1e-5:
                    raise Violation("C07/params_record", f"{where}: get_params()[{i}] = {have}, set {g['params']}")

    def _op_register_named(self, op):
        c = self._circ(op)
        if c["cls"] not in EXACT:
            raise Skip()
        circ = c["obj"]
        recorded = circ.gates
        idx = [i for i, g in enumerate(c["applied"]) if g.get("parametrize") and g.get("params")
               and i < len(recorded) and recorded[i].parametrize]
        if not idx or not op["names"]:
            raise Skip()
        named = {str(n): float(v) for n, v in op["names"].items()}
        exprs = {}
        for gs in op["gates"]:
            i = idx[gs["pick"] % len(idx)]
            if i not in exprs:
                exprs[i] = [list(f) for f in gs["forms"][: len(c["applied"][i]["params"])]]
        lib = {i: tuple(self._form_expr(f, named) for f in forms) for i, forms in exprs.items()}
        st, res = self.call(lambda: circ.register_named_params(dict(named), lib))
        if st == "rejected":
            self._drop_circ(c, "register_named_rejected")
            return
        c["named"], c["exprs"] = named, exprs
        self._model_apply_named(c)
        self._mutated(c)
        self.stats.fault("named_registered")
        self._check_params_record(c, "register_named_params")
        self.note("register_named", len(exprs))

    def _op_set_named(self, op):
        c = self._circ(op)
        if c["cls"] not in EXACT or not c.get("named"):
            raise Skip()
        circ = c["obj"]
        vals = {n: float(v) for n, v in op["values"].items() if n in c["named"]}
        if not vals:
            raise Skip()
        params = dict(vals)
        extra = None
        if op.get("also_gate"):
            idx = [i for i, g in enumerate(c["applied"]) if g.get("parametrize") and g.get("params") and i not in c["exprs"]]
            if idx:
                i = idx[op["also_gate"]["pick"] % len(idx)]
                extra = (i, list(op["also_gate"]["params"][: len(c["applied"][i]["params"])]))
                params[i] = np.asarray(extra[1])
        st, res = self.call(lambda: circ.set_params(params))
        if st == "rejected":
            self._drop_circ(c, "set_named_rejected")
            return
        c["named"].update(vals)
        self._model_apply_named(c)
        if extra:
            c["applied"][extra[0]] = {**c["applied"][extra[0]], "params": extra[1]}
        self._mutated(c)
        self.stats.fault("named_bound")
        self.stats.probe("set_named:" + ("mixed" if extra else "names_only"))
        self._check_params_record(c, "set_params(named)")
        self.note("set_named", len(vals))

    # .. queries ..................................................................
    def _tol(self, c):
        # the MPS classes split with the documented default cutoff 1e-10 on
        # the discarded weight (cutoff_mode rsum2 / the "dm" compression of the
        # lazy class): a state error up to ~1e-5 per split is inside the
        # property; with cutoff=0 and for the exact classes 1e-6
        if c["cls"] in MPS and not self.knobs["cutoff0"]:
            return 2e-4
        # the "nonlocal" gate mode (every multi-qubit gate of the lazy class,
        # gates on 3+ qubits of the other MPS classes) first writes the gate
        # as an MPO with ``from_dense``'s own default cutoff 1e-10, whatever
        # ``cutoff`` the circuit was given: e.g. the ZZ component (weight
        # theta^2/16) of XXPLUSYY(theta=0.0033) is dropped, a state error of 7e-7
        if c["cls"] == "CircuitMPSLazy" or (c["cls"] in MPS and any(
                g["nq"] + len(g.get("controls") or ()) >= 3 for g in c["applied"])):
            return 2e-4
        return 1e-6

    def _op_query(self, op):
        c = self._circ(op)
        circ = c["obj"]
        N = c["N"]
        cls = c["cls"]
        q = op["q"]
        if cls in EXACT and q not in self.QUERIES_EXACT:
            raise Skip()
        if cls in MPS and q not in self.QUERIES_MPS:
            raise Skip()
        psi = self.model_state(c)
        where = [w for w in op["where"] if w < N]
        if not where:
            where = [0]
        rng = data_rng(op["seed"])
        thunk, judge = self._query(c, q, where, rng, psi, op)
        k = op.get("interrupt_at")
        if k:
            st, val, n = run_interrupted(lambda: self.call(thunk), k)
            if st == "interrupted":
                self.stats.fault("query_interrupted")
                c["interrupted"] = True
                self.note("interrupted", q)
                return
            st, val = val
        else:
            st, val = self.call(thunk)
        if st == "rejected":
            self.note("query_rejected", q)
            self.stats.outcome("query_rejected")
            return
        judge(val)
        self.nqueries += 1
        self.stats.probe("queries_checked")
        self.stats.probe("query:" + q)
        if c.get("interrupted"):
            self.stats.probe("query_after_interrupt")
        if c.get("after_reject"):
            self.stats.probe("query_after_rejected_gate")
        self.note("q", q)

    def _query(self, c, q, where, rng, psi, op):
        circ = c["obj"]
        N = c["N"]
        cls = c["cls"]
        tol = self._tol(c)
        tag = f"C07/query:{q}:{cls}"
        d128 = {"dtype": "complex128"} if self.knobs["dtype128"] else {}

        def fail(msg):
            raise Violation(tag, f"{msg} [{len(c['applied'])} gates]" + (f" qopts={qo}" if qo else ""))

        mo = (op.get("qopts") or {}) if cls in MPS else {}
        mkw = {"dtype": mo["dtype"]} if mo.get("dtype") else {}
        if mo.get("dtype") == "complex64":
            tol = max(tol, 2e-5)  # the query itself runs in single precision
        if mo:
            self.stats.probe("mps_query_with_options")
        qo = (op.get("qopts") or {}) if cls in EXACT else {}
        qkw = {}
        if qo.get("seq") is not None:
            qkw["simplify_sequence"] = qo["seq"]
        if qo.get("eqn") is not None:
            qkw["simplify_equalize_norms"] = qo["eqn"]
        if qo.get("seq") in ("R", ""):
            # documented: without a data-inspecting pass ``check_zero="auto"``
            # is off and equalizing the norm of an all-zero tensor (a string
            # of amplitude 0) gives NaN by design (tracing-friendly)
            qkw["simplify_equalize_norms"] = False
        if qo.get("optimize"):
            qkw["optimize"] = qo["optimize"]
        if qo:
            self.stats.probe("query_with_options")

        def rehearsed(f):
            """f(**extra): optionally rehearse the very same query first."""
            def thunk():
                if qo.get("rehearse"):
                    f(rehearse=qo["rehearse"])
                return f()
            return thunk

        if q == "to_dense":
            rev = bool(qo.get("reverse") or mo.get("reverse"))
            want_psi = psi.reshape((2,) * N).transpose(tuple(reversed(range(N)))).reshape(-1) if rev else psi

            def judge(v):
                v = np.asarray(v).reshape(-1)
                if v.shape != want_psi.shape or maxdiff(v, want_psi) > tol:
                    fail(f"max|diff|={maxdiff(v, want_psi) if v.shape == want_psi.shape else 'shape'}")
            if cls in MPS:
                return (lambda: circ.to_dense(reverse=rev, **mkw)), judge
            return rehearsed(lambda **e: circ.to_dense(reverse=rev, **qkw, **e)), judge
        if q == "amplitude":
            b = "".join(str(int(x)) for x in rng.integers(0, 2, size=N))
            want = psi[int(b, 2)]

            def judge(v):
                if not abs(complex(v) - want) <= tol:
                    fail(f"amplitude({b}) = {complex(v)} vs {want}")
            if cls in MPS:
                return (lambda: circ.amplitude(b, **mkw)), judge
            return rehearsed(lambda **e: circ.amplitude(b, **qkw, **e)), judge
        if q == "partial_trace":
            keep = list(where)
            t = psi.reshape((2,) * N)
            rest = [a for a in range(N) if a not in keep]
            m = t.transpose(keep + rest).reshape(2 ** len(keep), -1)
            rho = m @ m.conj().T

            def judge(v):
                v = np.asarray(v)
                if v.shape != rho.shape or maxdiff(v, rho) > tol:
                    fail(f"partial_trace({keep}) max|diff|={maxdiff(v, rho) if v.shape == rho.shape else v.shape}")
            arg = keep if len(keep) > 1 or rng.uniform() < 0.5 else keep[0]
            if cls in MPS:
                return (lambda: circ.partial_trace(arg, **mkw)), judge
            return rehearsed(lambda **e: circ.partial_trace(arg, **qkw, **e)), judge
        if q in ("local_expectation", "local_expectation_list", "local_expectation_dtype"):
            k = len(where)
            A = rng.normal(size=(2**k, 2**k)) + 1j * rng.normal(size=(2**k, 2**k))
            want = np.vdot(psi, apply_dense(psi, A, where, N))

            def judge(v):
                if q == "local_expectation_list":
                    v = v[1]
                if not abs(complex(v) - want) <= tol * max(1.0, abs(want)):
                    fail(f"local_expectation on {where} = {complex(v)} vs {want}")
            if q == "local_expectation_list":
                B = rng.normal(size=(2**k, 2**k))
                return (lambda: circ.local_expectation([B, A], tuple(where))), judge
            if q == "local_expectation_dtype":
                return (lambda: circ.local_expectation(A, tuple(where), dtype="complex128")), judge
            if cls in MPS:
                return (lambda: circ.local_expectation(A, tuple(where))), judge
            return rehearsed(lambda **e: circ.local_expectation(A, tuple(where), **d128, **qkw, **e)), judge
        if q == "compute_marginal":
            others = [a for a in range(N) if a not in where]
            nfix = min(op.get("nfix", 0), len(others))
            fixq = [int(x) for x in rng.permutation(others)[:nfix]] if nfix else []
            fix = {fq: int(rng.integers(0, 2)) for fq in fixq}
            p = np.abs(psi.reshape((2,) * N)) ** 2
            idx = [slice(None)] * N
            for fq, v in fix.items():
                idx[fq] = v
            sub = p[tuple(idx)]
            remaining = [a for a in range(N) if a not in fix]
            axes_where = [remaining.index(w) for w in where]
            sumaxes = tuple(i for i in range(len(remaining)) if i not in axes_where)
            marg = sub.sum(axis=sumaxes) if sumaxes else sub
            # axes now in ascending qubit order of `where`: reorder to `where` order
            asc = sorted(where)
            marg = marg.transpose([asc.index(w) for w in where])

            def judge(v):
                v = np.asarray(v)
                if v.shape != marg.shape or maxdiff(v, marg) > tol:
                    fail(f"compute_marginal({where}, fix={fix}) max|diff|={maxdiff(v, marg) if v.shape == marg.shape else v.shape}")
            fixarg = {k_: str(v_) if rng.uniform() < 0.5 else v_ for k_, v_ in fix.items()} or None
            if cls in MPS:
                return (lambda: circ.compute_marginal(tuple(where), fix=fixarg, **mkw)), judge
            return rehearsed(lambda **e: circ.compute_marginal(tuple(where), fix=fixarg, dtype="complex128",
                                                                simplify_atol=1e-12, **qkw, **e)), judge
        if q == "psi_simplified":
            def judge(v):
                outer = [f"k{i}" for i in range(N)]
                d = np.asarray(v.to_dense(outer)).reshape(-1) if hasattr(v, "to_dense") else None
                if d is None or maxdiff(d, psi) > tol:
                    fail(f"get_psi_simplified max|diff|={maxdiff(d, psi) if d is not None else None}")
            seq = "ADCRS" if rng.uniform() < 0.7 else "R"
            return (lambda: circ.get_psi_simplified(seq)), judge
        if q == "rdm_lightcone":
            keep = sorted(where)
            t = psi.reshape((2,) * N)
            rest = [a for a in range(N) if a not in keep]
            m = t.transpose(keep + rest).reshape(2 ** len(keep), -1)
            rho = m @ m.conj().T

            def judge(v):
                kets = [f"k{i}" for i in keep]
                bras = [f"b{i}" for i in keep]
                d = np.asarray(v.to_dense(kets, bras))
                if d.shape != rho.shape or maxdiff(d, rho) > tol:
                    fail(f"get_rdm_lightcone_simplified({keep}) max|diff|={maxdiff(d, rho) if d.shape == rho.shape else d.shape}")
            return (lambda: circ.get_rdm_lightcone_simplified(tuple(where))), judge
        if q == "uni":
            if cls != "Circuit":
                raise Skip()
            if c.get("contract") is True and not op.get("uni_contracted_ok"):
                raise Skip()
            Ufull = np.eye(2**N, dtype=complex)
            for g in c["applied"]:
                M, qs = self.gate_matrix(g, check_unitary=False)
                cols = [apply_dense(Ufull[:, j].copy(), M, qs, N) for j in range(2**N)]
                Ufull = np.stack(cols, axis=1)

            def judge(v):
                st2, d = self.call(lambda: np.asarray(v.to_dense()))
                if st2 == "rejected":
                    fail(f"uni.to_dense() raised {d!r}")
                if d.shape != Ufull.shape or maxdiff(d, Ufull) > tol:
                    fail(f"uni max|diff|={maxdiff(d, Ufull) if d.shape == Ufull.shape else d.shape}")
            return (lambda: circ.uni), judge
        if q == "fidelity_estimate":
            err = bool(op["seed"] % 3 == 0)

            def judge(v):
                v = 1.0 - float(v) if err else float(v)
                if not abs(v - 1.0) <= (1e-6 if tol <= 1e-6 else 1e-4):
                    fail(f"{'1 - error' if err else 'fidelity'}_estimate() = {v} for an untruncated unitary circuit")
            return (lambda: circ.error_estimate() if err else circ.fidelity_estimate()), judge
        raise Skip()

    # .. samplers ..................................................................
    def _op_sampler(self, op):
        c = self._circ(op)
        circ = c["obj"]
        N = c["N"]
        cls = c["cls"]
        kind = op["kind"]
        kn = self.knobs
        d128 = {"dtype": "complex128"} if kn["dtype128"] else {}
        if cls in MPS:
            if kind == "sample":
                f = lambda: circ.sample(op["C"], seed=op["seed"])
            else:
                # remaining qubits would be drawn uniformly at random (the
                # method assumes a chaotic circuit): only exact - and only
                # judged - when every qubit is a marginal qubit
                mq = list(range(N))
                f = lambda: circ.sample_chaotic(op["C"], mq, seed=op["seed"], max_marginal_storage=kn["storage"])
        elif kind == "sample":
            kw = dict(seed=op["seed"], group_size=kn["group_size"], max_marginal_storage=kn["storage"], **d128)
            if op.get("order_seed") is not None:
                order = [int(x) for x in data_rng(op["order_seed"]).permutation(N)]
                kw["order"] = order
            f = lambda: circ.sample(op["C"], **kw)
        elif kind == "sample_chaotic":
            mq = [int(x) for x in data_rng(op["seed"]).permutation(N)]
            f = lambda: circ.sample_chaotic(op["C"], mq, seed=op["seed"], max_marginal_storage=kn["storage"], **d128)
        else:
            f = lambda: circ.sample_gate_by_gate(op["C"], group_size=kn["group_size"], seed=op["seed"],
                                                  max_marginal_storage=kn["storage"], **d128)
        st, it = self.call(f)
        if st == "rejected":
            self.note("sampler_rejected")
            return
        c["gens"].append({"it": it, "kind": kind, "left": op["C"], "started": False})
        if len(c["gens"]) > 4:
            g = c["gens"].pop(0)
            g["it"].close()
        self.note("sampler", kind)

    def _replica(self, c):
        """A fresh circuit of the same class and options holding the same
        recorded gates: what the queries are allowed to depend on."""
        cls = c["cls"]
        N = c["N"]
        new = self._construct(cls, N, c.get("contract"), c.get("compress_every", 2), c.get("psi0_seed"))
        rc = {"obj": new, "cls": cls, "N": N, "applied": [], "gens": []}
        for g in c["applied"]:
            self._call_gate(rc, g)()
        return new

    def _op_sample_now(self, op):
        """History independence, directly: a seeded sampler run to completion
        on the live circuit (whatever it has cached) and on a fresh replica of
        its recorded gates must give the same samples.  Exact classes only in
        double precision (in single precision a cached and a recomputed
        conditional may differ in the last bits and flip a draw)."""
        c = self._circ(op)
        circ = c["obj"]
        N = c["N"]
        cls = c["cls"]
        kn = self.knobs
        if any(g["label"] == "RAW" and False for g in c["applied"]):
            raise Skip()
        if cls in EXACT:
            kw = dict(seed=op["seed"], group_size=op["group_size"], max_marginal_storage=kn["storage"],
                      dtype="complex128", simplify_atol=1e-12)
            qubits = None
            if op.get("nsub"):
                qubits = [int(x) for x in data_rng(op["seed"] + 1).permutation(N)[: op["nsub"]]]
                kw["qubits"] = qubits
            if op.get("order_seed") is not None:
                base = qubits if qubits is not None else list(range(N))
                perm = data_rng(op["order_seed"]).permutation(len(base))
                kw["order"] = [base[int(i)] for i in perm]
            f = lambda cc: list(cc.sample(op["C"], **kw))
        else:
            qubits = None
            f = lambda cc: list(cc.sample(op["C"], seed=op["seed"]))
        st, got = self.call(lambda: f(circ))
        if st == "rejected":
            self.note("sample_now_rejected")
            return
        st2, rep = self.call(lambda: self._replica(c))
        if st2 == "rejected":
            raise Skip()
        st3, want = self.call(lambda: f(rep))
        if st3 == "rejected":
            raise Violation(f"C07/sampler_raised:sample:{cls}", f"fresh replica refused what the live circuit accepted: {want!r}")
        psi = self.model_state(c)
        nq = len(qubits) if qubits is not None else N
        for s_ in got:
            if not (isinstance(s_, str) and len(s_) == nq):
                raise Violation(f"C07/sample_format:sample", repr(s_))
            if qubits is None and abs(psi[int(s_, 2)]) ** 2 < 1e-7:
                raise Violation(f"C07/sample_support:sample:{cls}",
                                f"sampled {s_} which has probability {abs(psi[int(s_, 2)]) ** 2:.3g} [{len(c['applied'])} gates]")
        if got != want:
            raise Violation(f"C07/sample_history_dependent:{cls}",
                            f"seeded sample() on the live circuit gave {got} but {want} on a fresh circuit holding the same "
                            f"{len(c['applied'])} gates (same seed and arguments)")
        self.stats.probe("sample_now_checked")
        self.note("sample_now", len(got))

    def _op_gen_next(self, op):
        c = self._circ(op)
        if not c["gens"]:
            raise Skip()
        g = c["gens"][op["g"] % len(c["gens"])]
        if op.get("abandon"):
            g["it"].close()
            c["gens"].remove(g)
            self.stats.fault("generator_abandoned")
            return
        N = c["N"]
        # a sample is computed entirely between two scheduling points: it must
        # be supported on the state the circuit holds *now*
        if "start_mut" not in g:
            g["start_mut"] = c["mut"]
        try:
            st, s = self.call(lambda: next(g["it"], None))
        except Skip:
            c["gens"].remove(g)
            raise
        if st == "rejected":
            changed = c["mut"] != g.get("last_mut", g["start_mut"])
            c["gens"].remove(g)
            if changed:
                # a suspended sampler continued after the circuit changed: what
                # it should do is unspecified (see the support rule below);
                # refusing is as good as any answer
                self.stats.probe("suspended_sampler_refused_after_change")
                return
            raise Violation(f"C07/sampler_raised:{g['kind']}:{c['cls']}", repr(s))
        if s is None:
            if g["left"] != 0:
                raise Violation(f"C07/sample_count:{g['kind']}", f"generator ended with {g['left']} samples outstanding")
            c["gens"].remove(g)
            return
        g["left"] -= 1
        if g["left"] < 0:
            raise Violation(f"C07/sample_count:{g['kind']}", "generator yielded more samples than asked for")
        if g["started"] and len(c["applied"]) != g.get("ngates"):
            self.stats.probe("sample_after_new_gates")
        g["started"] = True
        g["ngates"] = len(c["applied"])
        if not (isinstance(s, str) and len(s) == N and set(s) <= {"0", "1"}):
            raise Violation(f"C07/sample_format:{g['kind']}", repr(s))
        # Which state a suspended sampler refers to after further gates were
        # applied is not specified (the MPS sampler snapshots the state when
        # it first runs, the exact ones read memoised conditionals): a sample
        # is accepted when it is supported on any state the circuit has held
        # since the sampler first ran, and flagged when on none of them.
        # (all of them - also those it held while this sampler was suspended
        # and another one, or a query, filled the shared memo tables)
        g["last_mut"] = c["mut"]
        states = self._states_since(c, g["start_mut"])
        if states is None:
            self.stats.probe("sampler_history_trimmed")
        else:
            ps = [abs(h[int(s, 2)]) ** 2 for h in states]
            if max(ps) < 1e-7:
                raise Violation(f"C07/sample_support:{g['kind']}:{c['cls']}",
                                f"sampled {s} which has probability {max(ps):.3g} in every state the circuit held "
                                f"since this sampler started ({len(states)} states, now {len(c['applied'])} recorded gates)")
            if ps[-1] < 1e-7:
                self.stats.probe("sample_from_earlier_state")
        self.stats.probe("samples_checked")
        self.note("sample", g["kind"])

    # ------------------------------------------------------------- shrinking
    @staticmethod
    def simplify_op(op):
        if op.get("interrupt_at"):
            yield {k: v for k, v in op.items() if k != "interrupt_at"}
        if op.get("k") == "gate":
            g = op["gate"]
            if g.get("controls"):
                yield {**op, "gate": {k: v for k, v in g.items() if k != "controls"}}
            if g.get("parametrize"):
                yield {**op, "gate": {k: v for k, v in g.items() if k != "parametrize"}}
            if g.get("round") is not None:
                yield {**op, "gate": {k: v for k, v in g.items() if k != "round"}}
            if op.get("via") != "apply_gate":
                yield {**op, "via": "apply_gate"}

    @staticmethod
    def simplify_knobs(knobs):
        if knobs["N"] > 2:
            yield {**knobs, "N": knobs["N"] - 1}
        if len(knobs["classes"]) > 1:
            for cl in knobs["classes"]:
                yield {**knobs, "classes": [cl]}
