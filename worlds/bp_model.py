"""Reference model for BPWorld: an abstract acyclic (hyper)network, exact
contraction / exact messages / exact marginals by dense einsum, and adapters
that give the six quimb BP flavours one mailbox interface.
"""

import numpy as np

from sim.engine import HarnessError, data_rng

FLAVOURS = ["D1BP", "HD1BP", "HV1BP", "L1BP", "D2BP", "L2BP"]
TWO_NORM = {"D2BP", "L2BP"}
HYPER = {"HD1BP", "HV1BP"}
LAZY = {"L1BP", "L2BP"}


# --------------------------------------------------------------------------- #
# abstract network


class Net:
    """tensors: list of dict(inds=tuple[str], data=ndarray, site=int, tag=str)
    sizes: {ind: dim};  out: set of dangling indices that stay open (2-norm:
    traced between ket and bra)."""

    def __init__(self, tensors, sizes, two_norm):
        self.tensors = tensors
        self.sizes = sizes
        self.two_norm = two_norm
        self.ind_tensors = {}
        for k, t in enumerate(tensors):
            for ix in t["inds"]:
                self.ind_tensors.setdefault(ix, []).append(k)
        self.nsites = 1 + max(t["site"] for t in tensors)
        self._cache = {}

    # ---- dense contraction -------------------------------------------------
    def einsum(self, tensor_ids, output, conj_ids=(), rename=None):
        """Contract the listed tensors (``conj_ids``: additionally the
        conjugates of these, with indices renamed through ``rename``)."""
        labels = {}

        def lab(ix):
            if ix not in labels:
                labels[ix] = len(labels)
            return labels[ix]

        args = []
        for k in tensor_ids:
            t = self.tensors[k]
            args += [t["data"], [lab(ix) for ix in t["inds"]]]
        for k in conj_ids:
            t = self.tensors[k]
            args += [np.conj(t["data"]), [lab(rename.get(ix, ix)) for ix in t["inds"]]]
        for ix in output:
            if ix not in labels:
                # index not carried by any listed tensor: broadcast of ones
                d = self.sizes[ix.rstrip("*")]
                args += [np.ones(d), [lab(ix)]]
        if not args:
            return np.array(1.0)
        return np.einsum(*args, [lab(ix) for ix in output], optimize=len(args) > 8)

    def bra_name(self, ix):
        return ix + "*"

    def bond_inds(self):
        """Indices that carry messages (2-norm: everything that is not a
        dangling physical index)."""
        if self.two_norm:
            return [ix for ix, ks in self.ind_tensors.items() if len(ks) >= 2]
        return list(self.ind_tensors)

    def phys_inds(self):
        return [ix for ix, ks in self.ind_tensors.items() if len(ks) == 1] if self.two_norm else []

    def norm_einsum(self, tensor_ids, output):
        """<branch|branch> with ``output`` indices (given as ket names or
        ket* names) left open."""
        rename = {ix: self.bra_name(ix) for ix in self.bond_inds()}
        return self.einsum(tensor_ids, output, conj_ids=tensor_ids, rename=rename)

    def value(self):
        ids = range(len(self.tensors))
        if self.two_norm:
            return self.norm_einsum(list(ids), [])
        return self.einsum(list(ids), [])

    # ---- incidence graph ------------------------------------------------------
    def branch(self, start, blocked_edge):
        """Tensor ids reachable from node ``start`` in the tensor-index
        incidence graph without crossing ``blocked_edge`` = (tensor k, ind)."""
        bk, bix = blocked_edge
        seen_t, seen_i = set(), set()
        stack = [start]
        while stack:
            kind, x = stack.pop()
            if kind == "t":
                if x in seen_t:
                    continue
                seen_t.add(x)
                for ix in self.tensors[x]["inds"]:
                    if (x, ix) != (bk, bix):
                        stack.append(("i", ix))
            else:
                if x in seen_i:
                    continue
                seen_i.add(x)
                for k in self.ind_tensors[x]:
                    if (k, x) != (bk, bix):
                        stack.append(("t", k))
        return sorted(seen_t)

    def is_forest(self):
        # incidence graph acyclic  <=>  #edges = #nodes - #components
        nodes = len(self.tensors) + len(self.ind_tensors)
        edges = sum(len(t["inds"]) for t in self.tensors)
        comp = 0
        seen = set()
        for k in range(len(self.tensors)):
            if k in seen:
                continue
            comp += 1
            seen.update(self.branch(("t", k), (None, None)))
        return edges == nodes - comp

    def site_tensors(self, s):
        return [k for k, t in enumerate(self.tensors) if t["site"] == s]

    def site_graph(self):
        """{(si, sj): tuple of bond inds} with si < sj."""
        edges = {}
        for ix, ks in self.ind_tensors.items():
            ss = sorted({self.tensors[k]["site"] for k in ks})
            if len(ss) == 2:
                edges.setdefault(tuple(ss), []).append(ix)
        return {k: tuple(v) for k, v in edges.items()}

    def site_branch(self, si, sj):
        """Sites on si's side when the si-sj edge is cut."""
        g = self.site_graph()
        adj = {}
        for a, b in g:
            adj.setdefault(a, []).append(b)
            adj.setdefault(b, []).append(a)
        seen = {si}
        stack = [si]
        while stack:
            a = stack.pop()
            for b in adj.get(a, []):
                if (a, b) == (si, sj) or b in seen:
                    continue
                seen.add(b)
                stack.append(b)
        if sj in seen:
            raise HarnessError("site graph is not a tree")
        return sorted(seen)

    def diameter(self):
        """Longest shortest path in the incidence graph (in edges)."""
        nodes = [("t", k) for k in range(len(self.tensors))] + [("i", ix) for ix in self.ind_tensors]
        adj = {n: [] for n in nodes}
        for k, t in enumerate(self.tensors):
            for ix in t["inds"]:
                adj[("t", k)].append(("i", ix))
                adj[("i", ix)].append(("t", k))
        best = 0
        for s in nodes:
            dist = {s: 0}
            q = [s]
            for a in q:
                for b in adj[a]:
                    if b not in dist:
                        dist[b] = dist[a] + 1
                        q.append(b)
            best = max(best, max(dist.values()))
        return best


# --------------------------------------------------------------------------- #
# generation


def _fill(rng, shape, kind):
    x = rng.uniform(0.5, 1.5, size=shape)
    if kind == "signed":
        x = x * rng.choice([-1.0, 1.0, 1.0], size=shape)
    elif kind == "complex":
        x = x * np.exp(1j * rng.uniform(-0.7, 0.7, size=shape))
    return x


def build_net(knobs):
    """Deterministic function of the knobs."""
    fl = knobs["flavour"]
    rs = np.random.default_rng(knobs["struct_seed"])
    n = knobs["n"]
    two = fl in TWO_NORM
    dims = knobs["dims"]
    uniform_d = fl == "HV1BP"
    sizes = {}
    tens = []  # list of [inds list, site]

    def new_ind(prefix="b"):
        ix = f"{prefix}{len(sizes)}"
        sizes[ix] = dims[0] if uniform_d else int(rs.choice(dims))
        return ix

    if fl in HYPER:
        tens.append([[], 0])
        inds_deg = {}
        for i in range(1, n):
            tens.append([[], i])
            c = rs.random()
            cand = [ix for ix, d in inds_deg.items() if 1 <= d < 4]
            if c < knobs.get("p_component", 0.1):
                continue  # new component
            if c < 0.45 and cand:
                ix = cand[rs.integers(len(cand))]
            else:
                ix = new_ind()
                j = int(rs.integers(i))
                tens[j][0].append(ix)
                inds_deg[ix] = 1
            tens[i][0].append(ix)
            inds_deg[ix] += 1
        # dangling indices (summed over in the 1-norm flavours)
        for t in tens:
            if not t[0] and rs.random() < knobs.get("p_scalar", 0.0):
                continue  # a floating scalar: a component of its own
            if not t[0] or rs.random() < knobs.get("p_dangling", 0.15):
                ix = new_ind("o")
                t[0].append(ix)
    else:
        # forest of sites
        nsite = n
        parent = {}
        for i in range(1, nsite):
            if rs.random() < knobs.get("p_component", 0.1) and fl in LAZY:
                continue
            parent[i] = int(rs.integers(i))
        if fl in LAZY:
            gsz = [int(rs.integers(1, 4)) for _ in range(nsite)]
        else:
            gsz = [1] * nsite
        members = []
        for s in range(nsite):
            ks = []
            for g in range(gsz[s]):
                tens.append([[], s])
                ks.append(len(tens) - 1)
                if g:
                    ix = new_ind("w")
                    tens[ks[g - 1]][0].append(ix)
                    tens[ks[g]][0].append(ix)
            members.append(ks)
        for i, p in parent.items():
            nb = 2 if (fl in LAZY and rs.random() < 0.2) else 1
            for _ in range(nb):
                ix = new_ind()
                tens[members[i][rs.integers(len(members[i]))]][0].append(ix)
                tens[members[p][rs.integers(len(members[p]))]][0].append(ix)
        if two:
            for t in tens:
                if not t[0] or rs.random() < 0.7:
                    ix = f"k{len(sizes)}"
                    sizes[ix] = int(rs.choice([2, 2, 3]))
                    t[0].append(ix)
        else:
            # closed network: an isolated tensor would be a scalar; D1BP has
            # no messages for it.  L1BP handles neighbour-less sites.
            for k, t in enumerate(tens):
                if not t[0]:
                    if fl == "D1BP" and not rs.random() < knobs.get("p_scalar", 0.0):
                        j = (k + 1) % len(tens)
                        ix = new_ind()
                        t[0].append(ix)
                        tens[j][0].append(ix)
    if not sizes:
        # nothing but floating scalars: no message exists and there is nothing
        # to propagate - keep at least one index in the network
        ix = new_ind("o")
        tens[0][0].append(ix)
        if fl == "D1BP":
            tens[-1][0].append(ix) if len(tens) > 1 else tens[0][0].pop()
    rd = data_rng(knobs["data_seed"])
    out = []
    for k, (inds, site) in enumerate(tens):
        # shuffle axis order
        inds = list(inds)
        rs.shuffle(inds)
        shape = tuple(sizes[ix] for ix in inds)
        out.append({
            "inds": tuple(inds),
            "data": _fill(rd, shape, knobs["data_kind"]),
            "site": site,
            "tag": f"T{k}",
        })
    net = Net(out, sizes, two)
    if not net.is_forest():
        # the LAZY generator may create loops *inside* a site or through a
        # double bond, which are contracted exactly; only the site graph must
        # be a tree
        if fl not in LAZY:
            raise HarnessError("generated network is not a forest")
    return net


def positive_init(seed, dtype=float):
    """Random positive initial messages, in the dtype of the network (HV1BP
    copies them into preallocated arrays and would drop imaginary parts of
    later updates if these were real)."""
    rng = data_rng(seed)

    def fill(shape):
        return rng.uniform(0.5, 1.5, size=shape).astype(dtype)

    return fill


def psd_matrix(rng, d, dtype=float):
    a = rng.uniform(0.2, 1.0, size=(d, d))
    if dtype == complex:
        a = a * np.exp(1j * rng.uniform(-0.5, 0.5, size=(d, d)))
    m = a @ a.conj().T + 0.1 * np.eye(d)
    return m / np.trace(m).real


# --------------------------------------------------------------------------- #
# comparing messages up to scale


def normed(x):
    x = np.asarray(x)
    s = x.sum()
    if abs(s) < 1e-300:
        return x
    return x / s


def same_direction(a, b, tol):
    a = np.asarray(a)
    b = np.asarray(b)
    if a.shape != b.shape:
        return False, float("inf")
    i = int(np.argmax(np.abs(b)))
    ai, bi = a.reshape(-1)[i], b.reshape(-1)[i]
    if abs(bi) < 1e-300 or abs(ai) < 1e-300:
        return False, float("inf")
    d = float(np.abs(a / ai - b / bi).max())
    return d <= tol, d
