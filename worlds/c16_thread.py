"""ThreadWorld (C16): every threaded / multi-worker routine of quimb run under
the simulated executor (seam S1) with a recorded schedule, compared with its
single-threaded form.
"""

import functools
import operator

import numpy as np
import scipy.sparse as sp

from sim.engine import (
    World,
    Violation,
    Skip,
    HarnessError,
    data_rng,
    maxdiff,
    pick,
    wchoice,
)
from sim.simpool import PoolSeam

NT_CHOICES = [2, 2, 3, 3, 4, 4, 5, 6, 7, 8, 9, 16]
DTYPES = ["float64", "complex128", "float32", "complex64"]

KERNELS = [
    "outer",
    "kron_dense",
    "ldmul",
    "rdmul",
    "subtract_update_1d",
    "subtract_update_2d",
    "divide_update_1d",
    "divide_update_2d",
    "complex_array",
    "phase_to_complex",
    "csr_matvec",
]
HIGHER = [
    "par_reduce",
    "kron_parallel",
    "ham_heis",
    "ham_heis_2D",
    "ham_hubbard_hardcore",
    "builder_coo",
    "builder_matvec",
    "builder_linop",
    "randn",
]


def _rand(rng, shape, dtype):
    x = rng.uniform(0.5, 1.5, size=shape) * rng.choice([-1.0, 1.0], size=shape)
    if dtype.startswith("complex"):
        x = x + 1j * rng.uniform(0.5, 1.5, size=shape)
    return x.astype(dtype)


def _bits_equal(a, b):
    a = np.asarray(a)
    b = np.asarray(b)
    if a.shape != b.shape or a.dtype != b.dtype:
        return False
    return a.tobytes() == b.tobytes()


def _dense(x):
    return x.toarray() if sp.issparse(x) else np.asarray(x)


class ThreadWorld(World):
    PROP = "C16"
    NAME = "thread"
    LEVEL = "fault_enumeration"
    SIM_TIME_UNIT = "scheduler steps (task completions)"
    SYSTEMATIC_GATES_SEARCH = True
    WARMUP_IN_CHILD = True
    RUNS = {"quick": 16000, "thorough": 3000000}
    WALL_CAP = {"quick": 600, "thorough": 3000}
    RULE = (
        "one run = seeded knobs + up to max_steps calls of threaded routines "
        "(kernel / size / dtype / num_threads / target_block_size / schedule "
        "plan + decision tape all drawn) sharing one CacheThreadPool; "
        "non-trivial = at least one call actually submitted >= 2 tasks to the "
        "simulated pool; distinct = different digest of (knobs, ops, task "
        "completion orders, verdicts)"
    )
    COMPONENTS = {
        "real": [
            "quimb.core numba kernels, threading_choose_num_blocks/get_block_range, maybe_multithread",
            "quimb.core.CacheThreadPool cache + shutdown-on-change logic",
            "quimb.core.par_reduce, kron(parallel=True)",
            "quimb.gen.operators ham_heis/ham_heis_2D/ham_hubbard_hardcore parallel paths",
            "quimb.operator.builder build_coo_data/build_sparse_matrix/matvec/aslinearoperator(parallel=k), configcore numba cores",
            "quimb.gen.rand randn/rand threaded fill",
        ],
        "stub": [
            "ThreadPoolExecutor -> sim.simpool.SimPool (no OS threads; FIFO window of max_workers tasks, tape-chosen completion)",
            "concurrent.futures.wait / quimb.gen.rand.wait -> sim.simpool.sim_wait",
            "Future -> SimFuture",
        ],
    }
    ASSUMPTIONS = [
        "concurrency inside one nogil kernel invocation is modelled at task granularity (atomic tasks, snapshot-merge for simultaneity)",
        "numpy / scipy serial expressions are the reference for values",
    ]

    # ------------------------------------------------------------------ knobs
    @staticmethod
    def draw_knobs(S):
        r = S["knobs"]
        modes = [m for m in ("serial", "stall", "merge") if r.random() < 0.6]
        if not modes:
            modes = ["serial"]
        return {
            "max_steps": r.choice([4, 6, 8, 10, 12]),
            "modes": modes,
            "eager": r.random() < 0.5,
            "mix": r.choice(["kernels", "kernels", "higher", "both", "partition"]),
            "small_bias": r.random() < 0.6,
            "seed_rand": r.randrange(2**31),
        }

    def __init__(self, knobs, stats):
        super().__init__(knobs, stats)
        import quimb as qu

        self.qu = qu
        self.seam = PoolSeam(stats)
        self.sched = self.seam.sched
        qu.seed_rand(knobs.get("seed_rand", 0))
        self.ncalls = 0
        self.threaded_calls = 0

    def close(self):
        self.seam.remove()

    @classmethod
    def warmup(cls):
        """Compile every kernel once in the parent so that forked workers
        inherit the machine code (children never JIT concurrently).  Verdicts
        are ignored here: each routine is simply driven once per dtype."""
        from sim.engine import Stats, Streams

        S = Streams("C16-warm", 0)
        knobs = cls.draw_knobs(S)
        knobs.update(modes=["serial", "merge"], mix="both")
        w = cls(knobs, Stats())
        try:
            for fn in KERNELS + HIGHER:
                for dtype in DTYPES:
                    w.knobs["mix"] = "both"
                    for _ in range(200):
                        op = w.gen_op(S)
                        if op.get("fn") == fn:
                            break
                    else:
                        raise HarnessError(f"warmup could not draw {fn}")
                    op["dtype"] = dtype
                    if "n" in op:
                        op["n"] = max(op["n"], 5)
                    try:
                        w.apply(op)
                    except (Violation, Skip):
                        pass
            check_partition_quiet(w.qu)
        finally:
            w.close()

    @staticmethod
    def nontrivial(trace, stats):
        return stats.probes.get("threaded_call", 0) >= 1

    def abstract_state(self):
        gtp = self.qu.core.get_thread_pool
        return ("pool", str(gtp._settings), self.ncalls)

    # ------------------------------------------------------------ generation
    def _draw_plan(self, S):
        r = S["sched"]
        return {
            "mode": pick(r, self.knobs["modes"]),
            "eager": self.knobs["eager"] and r.random() < 0.5,
            "tape": [r.randrange(1 << 16) for _ in range(24)],
        }

    def _draw_size(self, r, nt, tbs):
        """Problem sizes biased to where partition edge cases live."""
        b = abs(tbs)
        c = r.random()
        if c < 0.35:
            return r.randrange(0, 3 * nt + 1)
        if c < 0.6:
            k = r.randrange(1, 4)
            return max(0, b * k + r.choice([-1, 0, 1]))
        if c < 0.8:
            return max(0, nt * r.randrange(1, 4) + r.choice([-1, 0, 1]))
        return r.randrange(0, 41)

    def gen_op(self, S):
        r = S["ops"]
        mix = self.knobs["mix"]
        if mix == "partition" and r.random() < 0.7:
            return {
                "k": "partition",
                "size": r.randrange(0, 80),
                "tbs": r.choice([-1, 1]) * r.randrange(1, 20),
                "nt": r.randrange(1, 18),
            }
        if mix == "kernels":
            fn = pick(r, KERNELS)
        elif mix == "higher":
            fn = pick(r, HIGHER)
        else:
            fn = pick(r, KERNELS + HIGHER)
        nt = pick(r, NT_CHOICES)
        sign = -1 if r.random() < 0.4 else 1
        tbs = sign * pick(r, [1, 1, 2, 2, 3, 4, 5, 8])
        op = {
            "k": "call",
            "fn": fn,
            "nt": nt,
            "tbs": tbs,
            "dtype": pick(r, DTYPES),
            "data_seed": r.randrange(2**31),
            "plan": self._draw_plan(S),
        }
        if fn in KERNELS:
            op["n"] = self._draw_size(r, nt, tbs)
            op["m"] = r.randrange(1, 5)
            if fn == "kron_dense":
                op["p"] = r.randrange(1, 4)
                op["q"] = r.randrange(1, 4)
                op["n"] = max(1, op["n"] // op["p"]) if op["n"] else r.choice([0, 1])
            if fn == "csr_matvec":
                op["density"] = r.choice([0.0, 0.2, 0.5, 1.0])
        elif fn in ("par_reduce", "kron_parallel"):
            op["len"] = r.randrange(1, 10)
            op["what"] = r.choice(["tuple", "matmul", "kron"])
        elif fn == "ham_heis":
            op["L"] = r.randrange(2, 6)
            op["cyclic"] = r.random() < 0.5
            op["j"] = [round(r.uniform(-1, 1), 3) for _ in range(3)]
            op["b"] = r.choice([0.0, round(r.uniform(-1, 1), 3),
                                [round(r.uniform(-1, 1), 3) for _ in range(3)]])
            op["alias"] = r.choice(["heis", "ising", "XY", "XXZ"])
            if r.random() < 0.3:
                # the operator built in row ranges (``ownership``), as the
                # distributed solvers do: stacked, the pieces are the operator
                op["own"] = sorted(round(r.random(), 3) for _ in range(r.choice([1, 2, 3])))
        elif fn == "ham_heis_2D":
            op["Lx"] = r.randrange(2, 4)
            op["Ly"] = r.randrange(2, 3)
            op["cyclic"] = r.random() < 0.3
            op["j"] = [round(r.uniform(-1, 1), 3) for _ in range(3)]
            op["bz"] = r.choice([0.0, round(r.uniform(-1, 1), 3)])
        elif fn == "ham_hubbard_hardcore":
            op["L"] = r.randrange(2, 6)
            op["cyclic"] = r.random() < 0.5
        elif fn.startswith("builder"):
            op["model"] = r.choice(["heis", "heis", "hubbard", "spinless"])
            op["L"] = r.randrange(2, 6) if op["model"] != "hubbard" else r.randrange(2, 4)
            op["sym"] = r.choice(["none", "Z2", "U1", "U1U1"])
            op["sector_pick"] = r.randrange(100)
            op["complex"] = r.random() < 0.3
            # further calls on the SAME builder object with other worker
            # counts and vectors (whatever the first call cached is reused)
            op["follow"] = [[r.choice([2, 2, 3, 4, 5, 8]), r.randrange(2**31)]
                            for _ in range(r.choice([0, 1, 2, 3]))]
        elif fn == "randn":
            op["n"] = r.choice([0, 1, 2, 3, 5, 8, 13, 17, 33, 64])
            op["dist"] = r.choice(["normal", "uniform", "exp"])
            op["plan2"] = self._draw_plan(S)
            op["seed"] = r.randrange(2**31)
            op["scale"] = r.choice([1.0, 1.0, 0.5, 3.0])
            op["loc"] = r.choice([0.0, 0.0, -3.0, 2.0])
        return op

    # ------------------------------------------------------------- execution
    def apply(self, op):
        if op["k"] == "partition":
            return self._apply_partition(op)
        if op["k"] != "call":
            raise Skip()
        self.ncalls += 1
        fn = op["fn"]
        getattr(self, "_call_" + fn)(op)

    # .. partition arithmetic ..............................................
    def _apply_partition(self, op):
        check_partition(self.qu, op["size"], op["tbs"], op["nt"])
        self.stats.probe("partition_triple")
        self.note("part", op["size"], op["tbs"], op["nt"])

    # .. generic threaded call wrapper ....................................
    def _threaded(self, op, thunk, inputs, reference, *, poison, exact=True,
                  rtol=1e-12, result_of=None, label=None):
        """Run ``thunk`` under the simulated pool with the op's plan and judge
        the result.  ``reference`` is the single-threaded value (list of
        arrays); ``result_of(ret)`` maps the return value to the list of arrays
        to compare (default: [ret])."""
        label = label or op["fn"]
        sched = self.sched
        sched.begin_call(op["plan"], inputs=inputs, poison=poison)
        status, ret = self.call(thunk)
        left = sched.end_call()
        ntasks = sched.ntasks_call
        if ntasks >= 2:
            self.stats.probe("threaded_call")
            self.stats.probe("threaded:" + label)
            self.threaded_calls += 1
        if sched.max_pending > 0:
            self.stats.probe("tasks_submitted", ntasks)
        if status == "rejected":
            # the single-threaded form accepted these arguments
            sched.run_leftovers()
            raise Violation(
                f"C16/raises_only_when_threaded:{label}",
                f"{type(ret).__name__}: {ret}",
            )
        get = result_of or (lambda x: [x])
        got = [_dense(x) for x in get(ret)]
        ok, why = self._compare(got, reference, exact, rtol)
        nexc = len(sched.task_exceptions)
        if left:
            self.stats.probe("pending_at_return")
            n = sched.run_leftovers()
            got2 = [_dense(x) for x in get(ret)]
            ok2, _ = self._compare(got2, reference, exact, rtol)
            if (not ok and ok2) or any(
                not _bits_equal(a, b) for a, b in zip(got, got2)
            ):
                raise Violation(
                    f"C16/work_after_return:{label}",
                    f"{n} tasks still pending when the routine returned and "
                    f"they change the result; nt={op['nt']} tbs={op['tbs']}",
                )
        if not ok:
            extra = ""
            if nexc:
                e = sched.task_exceptions[0]
                extra = f"; {nexc} worker exception(s) swallowed, first: {type(e).__name__}: {e}"
            raise Violation(
                f"C16/serial_mismatch:{label}",
                f"{why}; nt={op['nt']} tbs={op['tbs']} tasks={ntasks}{extra}",
            )
        if sched.overlap is not None:
            raise Violation(
                f"C16/write_overlap:{label}",
                f"tasks {sched.overlap[0]} and {sched.overlap[1]} wrote "
                f"different values to element {sched.overlap[3]} of array "
                f"{sched.overlap[2]}",
            )
        if nexc:
            e = sched.task_exceptions[0]
            raise Violation(
                f"C16/worker_exception:{label}",
                f"{type(e).__name__}: {e} raised in a worker for a legal input",
            )
        self.note(label, ntasks, tuple(map(str, sched.decisions)), len(left))
        return ret

    @staticmethod
    def _compare(got, ref, exact, rtol):
        if len(got) != len(ref):
            return False, f"{len(got)} results vs {len(ref)}"
        for i, (a, b) in enumerate(zip(got, ref)):
            a = np.asarray(a)
            b = np.asarray(b)
            if a.shape != b.shape:
                return False, f"shape {a.shape} vs {b.shape}"
            if exact:
                if a.dtype != b.dtype:
                    return False, f"dtype {a.dtype} vs {b.dtype}"
                if a.tobytes() != b.tobytes():
                    if a.size and np.array_equal(a, b):
                        continue  # -0.0 vs 0.0 and the like
                    return False, f"result[{i}] differs bitwise, max|diff|={maxdiff(a, b):.3g}"
            else:
                scale = max(1.0, float(np.abs(b).max()) if b.size else 1.0)
                tol = rtol * scale
                if a.dtype in (np.float32, np.complex64):
                    tol = max(tol, 1e-5 * scale)
                d = maxdiff(a, b)
                if not d <= tol:
                    return False, f"result[{i}] max|diff|={d:.3g} > {tol:.3g}"
        return True, ""

    # .. kernels ............................................................
    def _serial(self, f, *a, **kw):
        """The single-threaded form: the same routine taking its direct
        (pool-free) path."""
        return f(*a, num_threads=1, target_block_size=2**40, **kw)

    def _call_outer(self, op):
        qu = self.qu
        rng = data_rng(op["data_seed"])
        a = _rand(rng, op["n"], op["dtype"])
        b = _rand(rng, op["m"], op["dtype"])
        ref = self._serial(qu.core.outer, a, b)
        self._expect(ref, np.outer(a, b))
        self._threaded(
            op,
            lambda: qu.core.outer(a, b, num_threads=op["nt"], target_block_size=op["tbs"]),
            [a, b], [np.asarray(ref)], poison=True,
        )

    def _call_kron_dense(self, op):
        qu = self.qu
        rng = data_rng(op["data_seed"])
        a = _rand(rng, (op["n"], op["m"]), op["dtype"])
        b = _rand(rng, (op["p"], op["q"]), op["dtype"])
        ref = self._serial(qu.core.kron_dense, a, b)
        self._expect(ref, np.kron(a, b))
        self._threaded(
            op,
            lambda: qu.core.kron_dense(a, b, num_threads=op["nt"], target_block_size=op["tbs"]),
            [a, b], [np.asarray(ref)], poison=True,
        )

    def _call_ldmul(self, op):
        qu = self.qu
        rng = data_rng(op["data_seed"])
        d = _rand(rng, op["n"], op["dtype"])
        A = _rand(rng, (op["n"], op["m"]), op["dtype"])
        ref = self._serial(qu.core.l_diag_dot_dense, d, A)
        self._expect(ref, d[:, None] * A)
        self._threaded(
            op,
            lambda: qu.core.l_diag_dot_dense(d, A, num_threads=op["nt"], target_block_size=op["tbs"]),
            [d, A], [np.asarray(ref)], poison=True,
        )

    def _call_rdmul(self, op):
        qu = self.qu
        rng = data_rng(op["data_seed"])
        # rows = m (partitioned by the kernel), columns = n (the diagonal)
        d = _rand(rng, op["n"], op["dtype"])
        A = _rand(rng, (op["m"] * 3, op["n"]), op["dtype"])
        ref = self._serial(qu.core.r_diag_dot_dense, A, d)
        self._expect(ref, A * d[None, :])
        self._threaded(
            op,
            lambda: qu.core.r_diag_dot_dense(A, d, num_threads=op["nt"], target_block_size=op["tbs"]),
            [d, A], [np.asarray(ref)], poison=True,
        )

    def _call_subtract_update_1d(self, op, two_d=False):
        qu = self.qu
        rng = data_rng(op["data_seed"])
        shape = (op["n"], op["m"]) if two_d else (op["n"],)
        X0 = _rand(rng, shape, op["dtype"])
        Y = _rand(rng, shape, op["dtype"])
        c = float(rng.uniform(0.5, 1.5))
        Xr = X0.copy()
        self._serial(qu.core.subtract_update_, Xr, c, Y)
        self._expect(Xr, X0 - np.asarray(c, dtype=X0.dtype) * Y, rtol=1e-6)
        X = X0.copy()
        self._threaded(
            op,
            lambda: qu.core.subtract_update_(X, c, Y, num_threads=op["nt"], target_block_size=op["tbs"]),
            [X, Y], [Xr], poison=False, result_of=lambda _: [X],
        )

    def _call_subtract_update_2d(self, op):
        self._call_subtract_update_1d(op, two_d=True)

    def _call_divide_update_1d(self, op, two_d=False):
        qu = self.qu
        rng = data_rng(op["data_seed"])
        shape = (op["n"], op["m"]) if two_d else (op["n"],)
        X = _rand(rng, shape, op["dtype"])
        c = float(rng.uniform(0.5, 1.5))
        outr = np.empty_like(X)
        self._serial(qu.core.divide_update_, X, c, outr)
        self._expect(outr, X / np.asarray(c, dtype=X.dtype), rtol=1e-6)
        out = np.empty_like(X)
        # ``out`` is the caller's pure output buffer: poison it ourselves
        out[...] = np.frombuffer(bytes([0xA7]) * out.dtype.itemsize, dtype=out.dtype)[0]
        self._threaded(
            op,
            lambda: qu.core.divide_update_(X, c, out, num_threads=op["nt"], target_block_size=op["tbs"]),
            [X, out], [outr], poison=False, result_of=lambda _: [out],
        )

    def _call_divide_update_2d(self, op):
        self._call_divide_update_1d(op, two_d=True)

    def _call_complex_array(self, op):
        qu = self.qu
        rng = data_rng(op["data_seed"])
        dt = "float32" if op["dtype"] in ("float32", "complex64") else "float64"
        x = _rand(rng, op["n"], dt)
        y = _rand(rng, op["n"], dt)
        ref = self._serial(qu.core.complex_array, x, y)
        self._expect(ref, x + 1j * y)
        self._threaded(
            op,
            lambda: qu.core.complex_array(x, y, num_threads=op["nt"], target_block_size=op["tbs"]),
            [x, y], [np.asarray(ref)], poison=True,
        )

    def _call_phase_to_complex(self, op):
        qu = self.qu
        rng = data_rng(op["data_seed"])
        dt = "float32" if op["dtype"] in ("float32", "complex64") else "float64"
        shape = (op["n"],) if op["m"] % 2 else (op["n"], op["m"])
        x = _rand(rng, shape, dt)
        ref = self._serial(qu.core.phase_to_complex, x)
        self._expect(ref, np.exp(1j * x.astype("float64")), rtol=1e-5)
        self._threaded(
            op,
            lambda: qu.core.phase_to_complex(x, num_threads=op["nt"], target_block_size=op["tbs"]),
            [x], [np.asarray(ref)], poison=True,
        )

    def _call_csr_matvec(self, op):
        qu = self.qu
        rng = data_rng(op["data_seed"])
        n = op["n"]
        dt = op["dtype"]
        dense = _rand(rng, (n, n), dt)
        mask = rng.uniform(size=(n, n)) < op["density"]
        A = sp.csr_matrix(dense * mask)
        shape = (n,) if op["m"] % 2 else (n, 1)
        x = _rand(rng, shape, dt)
        # the routine's block size is negative by default ("close to" blocks);
        # its serial form is one thread
        sched = self.sched
        sched.begin_call({"mode": "serial", "tape": [0]}, inputs=[], poison=False)
        ref = qu.core.par_dot_csr_matvec(A, x, target_block_size=op["tbs"], num_threads=1)
        sched.end_call()
        sched.run_leftovers()
        self._expect(ref, (A @ x.reshape(-1)).reshape(x.shape), rtol=1e-5)
        self._threaded(
            op,
            lambda: qu.core.par_dot_csr_matvec(A, x, target_block_size=op["tbs"], num_threads=op["nt"]),
            [A.data, A.indices, A.indptr, x], [np.asarray(ref)], poison=True,
        )

    def _expect(self, ref, indep, rtol=1e-6):
        """Cross-check of the single-threaded form against an independent
        numpy expression (guards the reference itself)."""
        a = _dense(ref)
        b = np.asarray(indep)
        if a.shape != b.shape:
            raise Violation("C16/serial_form_wrong", f"shape {a.shape} vs numpy {b.shape}")
        if a.size:
            scale = max(1.0, float(np.abs(b).max()))
            if not maxdiff(a, b) <= rtol * scale:
                raise Violation("C16/serial_form_wrong", f"max|diff|={maxdiff(a, b):.3g}")

    # .. higher-level users of the pool .......................................
    def _reduce_inputs(self, op):
        rng = data_rng(op["data_seed"])
        n = op["len"]
        what = op["what"]
        if what == "tuple":
            return [(i,) for i in range(n)], operator.add, True
        if what == "matmul":
            return [_rand(rng, (2, 2), "float64") for _ in range(n)], operator.matmul, False
        return [_rand(rng, (2, 1 + i % 2), "float64") for i in range(min(n, 6))], np.kron, False

    def _call_par_reduce(self, op):
        qu = self.qu
        seq, fn, exact = self._reduce_inputs(op)
        ref = functools.reduce(fn, seq)
        asarr = (lambda x: [np.asarray(x)])
        self._threaded(
            op,
            lambda: qu.core.par_reduce(fn, seq, num_threads=op["nt"]),
            [], asarr(ref), poison=False, exact=exact, result_of=asarr,
        )

    def _call_kron_parallel(self, op):
        qu = self.qu
        rng = data_rng(op["data_seed"])
        n = min(op["len"], 6)
        sparse = op["what"] == "kron"
        ops = []
        for i in range(n):
            a = _rand(rng, (2, 2), "complex128" if op["dtype"].startswith("complex") else "float64")
            ops.append(sp.csr_matrix(a) if (sparse and i % 2) else qu.qarray(a))
        ref = qu.kron(*ops, parallel=False)
        ind = functools.reduce(np.kron, [_dense(o) for o in ops])
        self._expect(ref, ind)
        self._threaded(
            op, lambda: qu.kron(*ops, parallel=True), [], [_dense(ref)],
            poison=False, exact=False,
        )

    def _call_ham_heis(self, op):
        qu = self.qu
        L, cyc = op["L"], op["cyclic"]
        alias = op["alias"]
        j, b = op["j"], op["b"]
        if alias == "heis":
            f = lambda **kw: qu.ham_heis(L, j=tuple(j), b=tuple(b) if isinstance(b, list) else b, cyclic=cyc, sparse=True, **kw)
        elif alias == "ising":
            f = lambda **kw: qu.ham_ising(L, jz=j[2], bx=j[0], cyclic=cyc, sparse=True, **kw)
        elif alias == "XY":
            f = lambda **kw: qu.ham_XY(L, jxy=j[0], bz=j[2], cyclic=cyc, sparse=True, **kw)
        else:
            f = lambda **kw: qu.ham_XXZ(L, delta=j[2], jxy=j[0], cyclic=cyc, sparse=True, **kw)
        ref = f(parallel=False)
        if op.get("own"):
            D = 2 ** L
            cuts = sorted({0, D, *(min(D, max(0, int(round(x * D)))) for x in op["own"])})
            ranges = [(a, b) for a, b in zip(cuts[:-1], cuts[1:]) if b > a]
            self.stats.probe("ownership_ranges", len(ranges))
            self._threaded(
                op, lambda: sp.vstack([f(parallel=True, nthreads=op["nt"], ownership=ab) for ab in ranges]),
                [], [_dense(ref)], poison=False, exact=False, label="ham_" + alias + "_ownership",
            )
            return
        self._threaded(
            op, lambda: f(parallel=True, nthreads=op["nt"]), [], [_dense(ref)],
            poison=False, exact=False, label="ham_" + alias,
        )

    def _call_ham_heis_2D(self, op):
        qu = self.qu
        f = lambda **kw: qu.ham_heis_2D(op["Lx"], op["Ly"], j=tuple(op["j"]), bz=op["bz"], cyclic=op["cyclic"], sparse=True, **kw)
        ref = f(parallel=False)
        self._threaded(op, lambda: f(parallel=True), [], [_dense(ref)],
                       poison=False, exact=False)

    def _call_ham_hubbard_hardcore(self, op):
        qu = self.qu
        rng = data_rng(op["data_seed"])
        t, V, mu = (float(x) for x in rng.uniform(0.3, 1.5, size=3))
        f = lambda **kw: qu.ham_hubbard_hardcore(op["L"], t=t, V=V, mu=mu, cyclic=op["cyclic"], **kw)
        ref = f(parallel=False)
        self._threaded(op, lambda: f(parallel=True), [], [_dense(ref)],
                       poison=False, exact=False)

    # .. operator builder .....................................................
    def _builder(self, op):
        import quimb.operator as qop

        rng = data_rng(op["data_seed"])
        L = op["L"]
        model = op["model"]
        sym = op["sym"]
        edges = [(i, i + 1) for i in range(L - 1)]
        if model == "heis":
            H = qop.SparseOperatorBuilder()
            for (a, b) in edges:
                jx = float(rng.uniform(0.3, 1.5))
                jz = float(rng.uniform(0.3, 1.5))
                # XX+YY and ZZ conserve both Z2 parity and U1 charge
                H += jx / 2, ("+", a), ("-", b)
                H += jx / 2, ("-", a), ("+", b)
                H += jz, ("z", a), ("z", b)
                if op["complex"]:
                    ph = 1j * float(rng.uniform(0.1, 0.5))
                    H += ph, ("+", a), ("-", b)
                    H += -ph, ("-", a), ("+", b)
            for i in range(L):
                H += float(rng.uniform(-1, 1)), ("z", i)
            if sym == "none" and not op["complex"]:
                H += float(rng.uniform(-1, 1)), ("x", 0)
            nsites = L
            species = None
        elif model == "spinless":
            H = qop.fermi_hubbard_spinless_from_edges(
                edges, t=float(rng.uniform(0.5, 1.5)), V=float(rng.uniform(0.5, 1.5)),
                mu=float(rng.uniform(-1, 1)))
            nsites = L
        else:
            H = qop.fermi_hubbard_from_edges(
                edges, t=float(rng.uniform(0.5, 1.5)), U=float(rng.uniform(0.5, 3)),
                mu=float(rng.uniform(-1, 1)))
            nsites = 2 * L
        sp_ = op["sector_pick"]
        if sym == "none":
            kw = {}
        elif sym == "Z2":
            kw = {"symmetry": "Z2", "sector": sp_ % 2}
        elif sym == "U1":
            kw = {"symmetry": "U1", "sector": sp_ % (nsites + 1)}
        else:
            if model == "hubbard":
                kw = {"sector": (sp_ % (L + 1), (sp_ // 7) % (L + 1))}
            else:
                na = max(1, nsites // 2)
                nb = nsites - na
                if nb < 1:
                    kw = {"symmetry": "U1", "sector": sp_ % (nsites + 1)}
                else:
                    kw = {"symmetry": "U1U1",
                          "sector": ((na, sp_ % (na + 1)), (nb, (sp_ // 7) % (nb + 1)))}
        return H, kw

    def _call_builder_coo(self, op):
        H, kw = self._builder(op)
        st, ref = self.call(lambda: H.build_sparse_matrix(parallel=False, **kw))
        if st == "rejected":
            self.note("builder_rejected")
            return
        if op["data_seed"] % 2:
            def result_of(ret):
                data, rows, cols, d = ret
                return [sp.coo_matrix((data, (rows, cols)), shape=(d, d)).toarray()]
            thunk = lambda: H.build_coo_data(parallel=op["nt"], **kw)
        else:
            result_of = None
            thunk = lambda: H.build_sparse_matrix(parallel=op["nt"], **kw)
        ret = self._threaded(op, thunk, [], [_dense(ref)], poison=False,
                             exact=False, result_of=result_of)
        if op["data_seed"] % 2:
            # exactly-once: the multiset of (row, col, value) over all ranks
            data, rows, cols, d = ret
            sdata, srows, scols, _ = H.build_coo_data(parallel=False, **kw)
            a = sorted(zip(rows.tolist(), cols.tolist(), np.round(data, 12).tolist()), key=repr)
            b = sorted(zip(srows.tolist(), scols.tolist(), np.round(sdata, 12).tolist()), key=repr)
            if a != b:
                raise Violation("C16/coo_multiset:builder_coo",
                                f"{len(a)} entries threaded vs {len(b)} serial")
        for ntk, _ in op.get("follow") or []:
            self._threaded({**op, "nt": ntk}, lambda: H.build_sparse_matrix(parallel=ntk, **kw), [], [_dense(ref)],
                           poison=False, exact=False, label="builder_coo_same_builder_again")

    def _builder_vec(self, op, H, kw):
        d = H.hilbert_space.get_size(kw.get("sector"), kw.get("symmetry"))
        rng = data_rng(op["data_seed"] + 1)
        dt = "complex128" if (op["complex"] or H.iscomplex) else "float64"
        return _rand(rng, d, dt), d

    def _call_builder_matvec(self, op, linop=False):
        H, kw = self._builder(op)
        st, A = self.call(lambda: H.build_dense(**kw))
        if st == "rejected":
            self.note("builder_rejected")
            return
        x, d = self._builder_vec(op, H, kw)
        if d == 0:
            self.note("empty_sector")
            return
        ref = H.matvec(x, parallel=False, **kw)
        self._expect(ref, A @ x, rtol=1e-9)
        if linop:
            thunk = lambda: H.aslinearoperator(parallel=op["nt"], dtype=x.dtype, **kw) @ x
        else:
            thunk = lambda: H.matvec(x, parallel=op["nt"], **kw)
        self._threaded(op, thunk, [x], [np.asarray(ref)], poison=False, exact=False)
        for n, (ntk, xs) in enumerate(op.get("follow") or []):
            xk = _rand(data_rng(xs), d, str(x.dtype))
            refk = A @ xk
            opk = {**op, "nt": ntk}
            if linop and n % 2:
                thunk = lambda: H.aslinearoperator(parallel=ntk, dtype=xk.dtype, **kw) @ xk
            else:
                thunk = lambda: H.matvec(xk, parallel=ntk, **kw)
            self._threaded(opk, thunk, [xk], [np.asarray(refk)], poison=False, exact=False, rtol=1e-9,
                           label=op["fn"] + "_same_builder_again")
            self.stats.probe("builder_reused_with_other_worker_count")

    def _call_builder_linop(self, op):
        self._call_builder_matvec(op, linop=True)

    # .. random numbers: schedule independence at fixed (seed, num_threads) ....
    def _call_randn(self, op):
        qu = self.qu
        dt = op["dtype"]
        kw0 = dict(dtype=dt, num_threads=op["nt"], seed=op["seed"], dist=op["dist"])
        scale, loc = op.get("scale", 1.0), op.get("loc", 0.0)
        kw = dict(kw0, scale=scale, loc=loc) if (scale != 1.0 or loc != 0.0) else kw0
        sched = self.sched
        sched.begin_call(op["plan2"], inputs=[], poison=False)
        st, ref = self.call(lambda: qu.randn(op["n"], **kw))
        sched.end_call()
        sched.run_leftovers()
        if st == "rejected":
            raise Violation("C16/raises_only_when_threaded:randn", str(ref))
        self._threaded(op, lambda: qu.randn(op["n"], **kw), [], [np.asarray(ref)],
                       poison=False, exact=True)
        if kw is not kw0:
            # the single-threaded routine scales and shifts the finished
            # (complex) array: the threaded one must denote the same map of
            # its own unscaled draw
            sched.begin_call({"mode": "serial", "eager": False, "tape": [0]}, inputs=[], poison=False)
            st0, base = self.call(lambda: qu.randn(op["n"], **kw0))
            sched.end_call()
            sched.run_leftovers()
            if st0 == "rejected":
                raise Violation("C16/raises_only_when_threaded:randn", str(base))
            want = np.asarray(base) * scale + loc
            got = np.asarray(ref)
            if got.shape != want.shape or (got.size and not np.abs(got - want).max() <= 1e-6 * (abs(scale) + abs(loc) + 1)):
                raise Violation("C16/serial_mismatch:randn_scale_loc",
                                f"randn(scale={scale}, loc={loc}) differs from scale * randn() + loc by "
                                f"{np.abs(got - want).max() if got.shape == want.shape else 'shape'}; "
                                f"dtype={dt} nt={op['nt']} n={op['n']} dist={op['dist']}")
            self.stats.probe("randn_scale_loc_checked")
        # re-seed so later draws in this run do not depend on this op
        qu.seed_rand(self.knobs.get("seed_rand", 0) + self.ncalls)

    # ------------------------------------------------------------- shrinking
    @staticmethod
    def simplify_op(op):
        if op.get("k") != "call":
            return
        plan = op.get("plan", {})
        if plan.get("mode") != "serial" or plan.get("eager") or any(plan.get("tape", [])):
            yield {**op, "plan": {"mode": "serial", "eager": False, "tape": [0]}}
        for key in ("n", "m", "len", "L"):
            v = op.get(key)
            if isinstance(v, int) and v > 1:
                yield {**op, key: v - 1}
                yield {**op, key: max(1, v // 2)}
        if op.get("nt", 2) > 2:
            yield {**op, "nt": op["nt"] - 1}
            yield {**op, "nt": 2}
        if op.get("dtype") != "float64":
            yield {**op, "dtype": "float64"}

    @staticmethod
    def simplify_knobs(knobs):
        return ()

    # ------------------------------------------------- systematic grid (aux)
    @classmethod
    def systematic(cls, tier):
        """The property asks for the partition arithmetic exhaustively over a
        bounded grid: enumerate it (cheap, deterministic; auxiliary to the
        seeded search)."""
        import quimb as qu

        smax, bmax, tmax = (64, 16, 9) if tier == "quick" else (160, 40, 17)
        n = 0
        bad = {}
        for nt in range(1, tmax + 1):
            for tbs in list(range(-bmax, 0)) + list(range(1, bmax + 1)):
                for size in range(0, smax + 1):
                    n += 1
                    try:
                        check_partition(qu, size, tbs, nt)
                    except Violation as v:
                        bad.setdefault(v.cls, []).append((size, tbs, nt, v.detail))
        viols = []
        for c, lst in sorted(bad.items()):
            size, tbs, nt, detail = min(lst, key=lambda t: (t[0] + abs(t[1]) + t[2], t))
            viols.append({
                "seed": -1,
                "knobs": {"max_steps": 1, "modes": ["serial"], "eager": False,
                          "mix": "partition", "small_bias": True, "seed_rand": 0},
                "ops": [{"k": "partition", "size": size, "tbs": tbs, "nt": nt}],
                "violation": (c, detail),
                "step": 0,
            })
        return {
            "coverage": {
                "systematic_evaluations": n,
                "partition_grid": {
                    "size_max": smax, "abs_block_max": bmax, "threads_max": tmax,
                    "triples_enumerated": n, "exhaustive": True,
                    "triples_failing": sum(len(v) for v in bad.values()),
                }
            },
            "violations": viols,
        }


def check_partition_quiet(qu):
    for a in ((5, 2, 3), (5, -2, 3)):
        try:
            check_partition(qu, *a)
        except Violation:
            pass


def check_partition(qu, size, tbs, nt):
    """Oracle 3: the work partition tiles [0, size) exactly once."""
    core = qu.core
    try:
        nb, base, rem = core.threading_choose_num_blocks(size, tbs, nt)
    except ZeroDivisionError as e:
        raise Violation(
            "C16/partition:raises",
            f"threading_choose_num_blocks({size}, {tbs}, {nt}) raised {e!r}",
        ) from None
    if nb != int(nb) or nb < 1:
        raise Violation(
            "C16/partition:num_blocks",
            f"threading_choose_num_blocks({size}, {tbs}, {nt}) -> num_blocks={nb}",
        )
    nb = int(nb)
    pos = 0
    for b in range(nb):
        start, stop = core.threading_get_block_range(b, base, rem)
        if start != pos or stop < start:
            raise Violation(
                "C16/partition:tiling",
                f"size={size} tbs={tbs} nt={nt}: block {b} is [{start},{stop}) but "
                f"previous block ended at {pos}",
            )
        pos = stop
    if pos != size:
        raise Violation(
            "C16/partition:tiling",
            f"size={size} tbs={tbs} nt={nt}: blocks cover [0,{pos}) not [0,{size})",
        )
