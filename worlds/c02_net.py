"""NetWorld (C02): several tensor networks over a shared pool of tensors,
driven through public operations in a seeded interleaving, with lifecycle
faults (death of a viewing network now or at a later GC, address/hash reuse,
pickle / deep-copy restarts, forked name generators).  After every step every
live network is compared with a fresh scan of its tensors and the global
ownership relation is recomputed.
"""

import copy as _copy
import gc
import pickle

import numpy as np

from sim.engine import World, Violation, Skip, HarnessError, data_rng, pick, wchoice
from sim.alloc import SimAlloc
from sim.seams import NameSeam, GCSeam

INDS = ["a", "b", "c", "d", "e", "f"]  # all of size 2
INDS1 = ["u", "v"]  # all of size 1
TAGS = ["X", "Y", "Z", "W"]
WHICH = ["all", "any", "!all", "!any"]


def ind_size(ix):
    return 1 if ix[0] in "uv" else 2


def canonical(ix):
    return not ix.startswith("_")


class Cycle:
    """Parks an object in a reference cycle: unreachable for the user, alive
    until the cyclic collector runs."""

    def __init__(self, obj):
        self.obj = obj
        self.me = self


class NetWorld(World):
    PROP = "C02"
    NAME = "net"
    LEVEL = "fault_enumeration"
    SIM_TIME_UNIT = "operations"
    RUNS = {"quick": 6000, "thorough": 150000}
    WALL_CAP = {"quick": 900, "thorough": 3300}
    RULE = (
        "one run = up to max_steps public operations (construct / combine / add / "
        "pop / replace / select / partition / copy / rename labels and tags at "
        "tensor or network level / contract / split / gate / fuse / slice / squeeze "
        "/ simplify) and lifecycle faults, over up to 5 live networks that share "
        "tensors; labels and tags come from tiny alphabets so clashes, hyper "
        "indices and repeated labels occur; non-trivial = >= 2 networks were live "
        "at some point and >= 4 ops executed; distinct = different digest of "
        "(knobs, ops, per-step discrete observations)"
    )
    COMPONENTS = {
        "real": [
            "quimb.tensor.tensor_core.TensorNetwork / Tensor: all map maintenance (_link/_unlink, _modify_tensor_*, owners registry), copy / pickle / deepcopy, combine and mangling, select / partition / pop / setitem, the structural rewrites called",
            "quimb.utils.oset",
        ],
        "stub": [
            "default hash(TensorNetwork) -> sim.alloc.SimAlloc (reuse after death is a scheduler decision)",
            "cyclic GC: disabled; delayed death = parked cycle released by a recorded collect op",
            "rand_uuid prefix/iterator: seeded, rewindable (fork fault)",
        ],
    }
    ASSUMPTIONS = [
        "operations are called within their documented domains (arguments drawn from the current state)",
        "virtual combine operands share no tensor object with the receiver (see known finding F6); the same-object-twice scenario is exercised only on purpose",
    ]

    # ------------------------------------------------------------------ knobs
    @staticmethod
    def draw_knobs(S):
        r = S["knobs"]
        return {
            "max_steps": r.choice([8, 15, 25, 40]),
            "table": r.choice(["mutation", "query", "lifecycle", "structure"]),
            "faults": sorted(f for f in ("drop", "drop_delayed", "reuse", "restart", "fork")
                             if r.random() < 0.5),
            "fault_rate": r.choice([0.05, 0.15, 0.3]),
            "p_repeat": r.choice([0.0, 0.0, 0.05, 0.2]),
            "p_same_object_twice": r.choice([0.0, 0.0, 0.0, 0.02]),
            "p_trace_by_rename": r.choice([0.0, 0.0, 0.3, 0.3]),
            "size1": r.random() < 0.4,
        }

    # ------------------------------------------------------------------ setup
    def __init__(self, knobs, stats):
        super().__init__(knobs, stats)
        import quimb.tensor as qtn
        from quimb.tensor import tensor_core as tc

        self.qtn = qtn
        self.tc = tc
        self.gcseam = GCSeam()
        self.names = NameSeam()
        from sim.engine import hash_int

        self.names.seed_uuid4(hash_int("uuid4", knobs.get("max_steps"), knobs.get("fault_rate"), ",".join(knobs.get("faults", []))) % (2**31))
        self.alloc = SimAlloc(stats)
        self.alloc.lazy_reuse = True  # every network is keyed in the op that creates it (see _add_net)
        alloc = self.alloc
        self._saved_hash = tc.TensorNetwork.__dict__.get("__hash__", None)
        tc.TensorNetwork.__hash__ = lambda tn: alloc.key(tn)
        self.nets = []  # live networks (strong refs)
        self.loose = []  # tensors held by the user outside any network
        self.parked = []  # cycles awaiting collection
        self.max_live = 0
        self.nt = 0

    def close(self):
        tc = self.tc
        if self._saved_hash is None:
            try:
                del tc.TensorNetwork.__hash__
            except AttributeError:
                pass
        else:
            tc.TensorNetwork.__hash__ = self._saved_hash
        self.nets.clear()
        self.loose.clear()
        self.parked.clear()
        self.names.remove()
        self.gcseam.remove()

    @classmethod
    def warmup(cls):
        from sim import engine

        for s in range(80):
            engine.run_seed(cls, 970_000_000 + s)  # verdicts ignored here

    @staticmethod
    def nontrivial(trace, stats):
        return stats.probes.get("max_live_ge2", 0) >= 1 and len(trace) >= 4

    def abstract_state(self):
        return tuple(
            (len(tn.tensor_map), len(tn.ind_map), len(tn._inner_inds), len(tn.tag_map))
            for tn in self.nets
        )

    # ------------------------------------------------------------ generation
    def _new_tensor_spec(self, r):
        nd = r.choice([1, 2, 2, 3, 3, 4])
        pool = INDS + (INDS1 if self.knobs["size1"] else [])
        if r.random() < self.knobs["p_repeat"]:
            inds = [r.choice(pool) for _ in range(nd)]
        else:
            inds = r.sample(pool, min(nd, len(pool)))
        tags = r.sample(TAGS, r.choice([0, 1, 1, 2]))
        return {"inds": inds, "tags": tags, "data_seed": r.randrange(2**31)}

    TABLES = {
        # kind -> weight, per table
        "mutation": dict(new=3, add_t=4, combine=3, copy=2, select=2, partition=1, pop=3,
                         delete=1, setitem=2, reindex=5, retag=3, t_reindex=5, t_retag=4,
                         add_tag=2, drop_tags=2, mangle=1, structure=3, consecutive=1,
                         remove_all=0.3, transpose=1, query=2),
        "query": dict(new=3, add_t=3, combine=2, copy=2, select=5, partition=2, pop=2,
                      delete=1, setitem=1, reindex=3, retag=2, t_reindex=3, t_retag=2,
                      add_tag=1, drop_tags=1, mangle=1, structure=2, consecutive=0.5,
                      remove_all=0.2, transpose=1, query=8),
        "lifecycle": dict(new=4, add_t=3, combine=4, copy=4, select=5, partition=2, pop=2,
                          delete=1, setitem=1, reindex=4, retag=2, t_reindex=5, t_retag=3,
                          add_tag=1, drop_tags=1, mangle=1, structure=2, consecutive=0.5,
                          remove_all=0.2, transpose=0.5, query=2),
        "structure": dict(new=3, add_t=3, combine=3, copy=2, select=2, partition=1, pop=1,
                          delete=1, setitem=1, reindex=2, retag=1, t_reindex=2, t_retag=1,
                          add_tag=1, drop_tags=1, mangle=1, structure=10, consecutive=0.5,
                          remove_all=0.2, transpose=1, query=2),
    }
    STRUCT = ["contract_tags", "contract_ind", "contract_between", "contract_all",
              "split_tensor", "replace_with_svd", "gate_inds", "insert_gauge",
              "fuse_multibonds", "isel", "squeeze", "rank_simplify", "cut_bond",
              "canonize_between", "compress_between", "insert_operator",
              "replace_with_identity", "conj", "multiply", "new_bond", "cut_between", "randomize", "astype",
              "expand_bond", "convert_to_zero", "isometrize", "t_new_ind", "t_fuse", "t_squeeze", "t_isel"]

    def gen_op(self, S):
        r = S["ops"]
        kn = self.knobs
        n = len(self.nets)
        self.alloc_reuse_draw = False
        if n == 0:
            return {"k": "new", "specs": [self._new_tensor_spec(r) for _ in range(r.choice([1, 2, 3]))],
                    "virtual": r.random() < 0.3}
        # lifecycle faults, placed rather than sprinkled
        if kn["faults"] and r.random() < kn["fault_rate"]:
            f = pick(r, kn["faults"])
            if f == "drop" and n >= 2:
                return {"k": "drop", "net": self._pick_view(r)}
            if f == "drop_delayed" and n >= 2:
                return {"k": "drop_delayed", "net": self._pick_view(r)}
            if f == "reuse":
                return {"k": "collect", "then_reuse": True}
            if f == "restart":
                return {"k": "restart", "net": r.randrange(n), "how": r.choice(["pickle", "deepcopy", "copy_deep"])}
            if f == "fork":
                return {"k": "fork_build", "specs": [self._new_tensor_spec(r) for _ in range(r.choice([2, 3]))],
                        "rewrites": r.choice([1, 1, 2]), "a": r.randrange(1 << 16), "b": r.randrange(1 << 16)}
        if self.parked and r.random() < 0.2:
            return {"k": "collect", "then_reuse": r.random() < 0.5}
        table = [(k, w) for k, w in self.TABLES[kn["table"]].items()]
        if n >= 5:
            table = [(k, w) for k, w in table if k not in ("new", "copy", "select", "partition")]
        kind = wchoice(r, table)
        op = {"k": kind, "net": r.randrange(n), "reuse": ("reuse" in kn["faults"] and r.random() < 0.5)}
        if kind in ("reindex", "t_reindex") and r.random() < kn.get("p_trace_by_rename", 0.0):
            op["trace_ok"] = True
            if kind == "t_reindex" and r.random() < 0.5:
                # aim at a label that is already repeated on some tensor
                # (dissolving or moving a trace), when there is one
                op["aim_repeated"] = True
        a = r.randrange(1 << 16)
        op["a"] = a  # generic operand selector (interpreted modulo what exists)
        op["b"] = r.randrange(1 << 16)
        if kind == "new":
            op["specs"] = [self._new_tensor_spec(r) for _ in range(r.choice([1, 2, 3]))]
            op["virtual"] = r.random() < 0.3
        elif kind == "add_t":
            op["spec"] = self._new_tensor_spec(r)
            op["how"] = r.choice(["&=", "|=", "add_tensor", "add_tensor_v", "add_tensor_tid", "loose|="])
        elif kind == "combine":
            op["other"] = r.randrange(n)
            op["how"] = r.choice(["&", "|", "&=", "|=", "TN", "TNv", "atn", "atn_nocheck", "combine"])
            op["twice"] = r.random() < kn["p_same_object_twice"]
        elif kind == "copy":
            op["how"] = r.choice(["copy", "copy_v", "copy_deep", "TN", "TNv", "view_as", "view_like"])
        elif kind == "select":
            op["how"] = r.choice(["select", "select_v", "select_any", "neighbors", "getitem", "select_tids"])
            op["which"] = r.choice(WHICH)
            op["ntags"] = r.choice([1, 1, 2])
        elif kind == "partition":
            op["inplace"] = r.random() < 0.5
            op["which"] = r.choice(["any", "all"])
            op["how"] = r.choice(["partition", "partition_tensors"])
        elif kind == "pop":
            op["by"] = r.choice(["tid", "tags"])
        elif kind == "delete":
            op["how"] = r.choice(["delete", "delitem"])
            op["which"] = r.choice(["all", "any"])
        elif kind == "setitem":
            op["spec"] = self._new_tensor_spec(r)
            op["src"] = r.choice(["fresh", "fresh", "loose"])
        elif kind in ("reindex", "t_reindex"):
            op["inplace"] = r.random() < 0.7
            op["target"] = r.choice(["fresh", "fresh", "existing", "swap", "uuid"])
            op["how"] = r.choice(["reindex", "modify"]) if kind == "t_reindex" else "reindex"
            op["n"] = r.choice([1, 1, 2])
        elif kind in ("retag", "t_retag"):
            op["inplace"] = r.random() < 0.7
            op["how"] = r.choice(["retag", "add_tag", "drop_tags", "modify"]) if kind == "t_retag" else "retag"
        elif kind == "add_tag":
            op["where"] = r.choice([None, "tag"])
            op["which"] = r.choice(["all", "any"])
        elif kind == "structure":
            op["what"] = pick(r, self.STRUCT)
            op["inplace"] = r.random() < 0.6
            op["data_seed"] = r.randrange(2**31)
        elif kind == "query":
            op["which"] = r.choice(WHICH)
            op["ntags"] = r.choice([1, 2])
        return op

    def _pick_view(self, r):
        # bias to a network that shares tensor objects with another one
        sharing = [i for i, tn in enumerate(self.nets)
                   if any(len(t._owners) > 1 for t in tn.tensor_map.values())]
        if sharing and r.random() < 0.7:
            return pick(r, sharing)
        return r.randrange(len(self.nets))

    # ------------------------------------------------------------- execution
    def _tensor(self, spec):
        rng = data_rng(spec["data_seed"])
        inds = tuple(spec["inds"])
        shape = tuple(ind_size(ix) for ix in inds)
        data = rng.uniform(0.5, 1.5, size=shape)
        self.nt += 1
        return self.qtn.Tensor(data, inds, tags=spec["tags"])

    def _net(self, op, key="net"):
        if not self.nets:
            raise Skip()
        return self.nets[op[key] % len(self.nets)]

    def _add_net(self, tn):
        if not isinstance(tn, self.tc.TensorNetwork):
            raise Violation("C02/returned_wrong_type", f"{type(tn)}")
        if any(tn is m for m in self.nets):
            return
        self.alloc.key(tn)  # keyed in the op that created it
        self.nets.append(tn)
        while len(self.nets) > 6:
            self.nets.pop(0)

    def apply(self, op):
        k = op["k"]
        self.alloc.new_epoch()
        self.alloc.reuse = bool(op.get("reuse") or op.get("then_reuse"))
        fn = getattr(self, "_op_" + k, None)
        if fn is None:
            raise Skip()
        try:
            fn(op)
        finally:
            self.alloc.reuse = False
        self.max_live = max(self.max_live, len(self.nets))
        if len(self.nets) >= 2:
            self.stats.probe("max_live_ge2")
        self.check_all(op)

    def qcall(self, thunk):
        """Call quimb; a deliberate rejection leaves the world as it is (the
        invariants are still evaluated afterwards)."""
        st, val = self.call(thunk)
        if st == "rejected":
            self.note("rejected")
            raise _Rejected()
        return val

    # .. constructors .........................................................
    def _op_new(self, op):
        ts = [self._tensor(s) for s in op["specs"]]
        tn = self._try(lambda: self.qtn.TensorNetwork(ts, virtual=op.get("virtual", False)))
        if tn is not None:
            if op.get("virtual"):
                self.loose.extend(ts)
            self._add_net(tn)

    def _try(self, thunk):
        try:
            return self.qcall(thunk)
        except _Rejected:
            return None

    def _op_add_t(self, op):
        tn = self._net(op)
        how = op["how"]
        if how == "loose|=":
            cand = [t for t in self.loose if not any(t is u for u in tn.tensor_map.values())]
            if not cand:
                raise Skip()
            t = cand[op["a"] % len(cand)]
            if not self._compatible(tn, [t]):
                raise Skip()
            self._try(lambda: tn.__ior__(t))
            return
        t = self._tensor(op["spec"])
        if how == "&=":
            self._try(lambda: tn.__iand__(t))
        elif how == "|=":
            self._try(lambda: tn.__ior__(t))
            self.loose.append(t)
        elif how == "add_tensor":
            self._try(lambda: tn.add_tensor(t))
        elif how == "add_tensor_v":
            self._try(lambda: tn.add_tensor(t, virtual=True))
            self.loose.append(t)
        else:
            tid = op["a"] % 8
            self._try(lambda: tn.add_tensor(t, tid=tid))
        self._trim_loose()

    @staticmethod
    def _sizes_of(tensors):
        out = {}
        for t in tensors:
            for ax, ix in enumerate(t.inds):
                out.setdefault(ix, set()).add(t.shape[ax])
        return out

    def _compatible(self, tn, tensors):
        """Precondition of every 'add' spelling: a label shared between the
        receiver and what is added has one size."""
        a = self._sizes_of(tn.tensor_map.values())
        b = self._sizes_of(tensors)
        return all(len(a[ix] | b[ix]) == 1 for ix in a.keys() & b.keys()) and all(len(v) == 1 for v in b.values())

    def _trim_loose(self):
        while len(self.loose) > 6:
            self.loose.pop(0)

    def _shares_object(self, a, b):
        ids = {id(t) for t in a.tensor_map.values()}
        return any(id(t) in ids for t in b.tensor_map.values())

    def _op_combine(self, op):
        a = self._net(op)
        b = self._net(op, "other")
        how = op["how"]
        virtual = how in ("|", "|=", "TNv")
        if a is b and how in ("&=", "|=", "atn", "atn_nocheck"):
            raise Skip()  # adding a network into itself while iterating it
        if virtual and self._shares_object(a, b) and not op.get("twice"):
            # precondition of the default generator (finding F6)
            raise Skip()
        shared = virtual and self._shares_object(a, b)
        if shared:
            self.stats.probe("same_object_twice_on_purpose")
        if not self._compatible(a, list(b.tensor_map.values())):
            raise Skip()
        na, nb = len(a.tensor_map), len(b.tensor_map)
        inner_a, inner_b = set(a._inner_inds), set(b._inner_inds)
        outer_a, outer_b = set(a._outer_inds), set(b._outer_inds)
        inplace = how in ("&=", "|=", "atn", "atn_nocheck")
        TN = self.qtn.TensorNetwork
        thunks = {
            "&": lambda: a & b,
            "|": lambda: a | b,
            "&=": lambda: a.__iand__(b),
            "|=": lambda: a.__ior__(b),
            "TN": lambda: TN([a, b]),
            "TNv": lambda: TN([a, b], virtual=True),
            "atn": lambda: a.add_tensor_network(b, virtual=False, check_collisions=True),
            "atn_nocheck": lambda: a.add_tensor_network(b, virtual=False, check_collisions=False),
            "combine": lambda: a.combine(b),
        }
        res = self._try(thunks[how])
        if res is None and not inplace:
            return
        r = a if inplace else res
        if not inplace:
            self._add_net(r)
        if how == "atn_nocheck" or (a is b) or shared:
            # (one tensor object held by both operands of a virtual combine
            # cannot carry two names: its bonds coincide by construction)
            return
        # combine rules: tensors of `a` come first in the result, then `b`'s
        ts = list(r.tensor_map.values())
        if len(ts) != na + nb:
            raise Violation("C02/combine_count", f"{len(ts)} tensors after combining {na}+{nb}")
        slots_a, slots_b = {}, {}
        for t in ts[:na]:
            for ix in t.inds:
                slots_a[ix] = slots_a.get(ix, 0) + 1
        for t in ts[na:]:
            for ix in t.inds:
                slots_b[ix] = slots_b.get(ix, 0) + 1
        merged = [ix for ix in slots_a if slots_a[ix] >= 2 and slots_b.get(ix, 0) >= 2]
        if merged:
            raise Violation("C02/combine_merge",
                            f"bond(s) {merged} of both operands coincide after {how}")
        for ix in outer_a:
            if slots_a.get(ix, 0) < 1:
                raise Violation("C02/combine_renamed_outer", f"outer label {ix} of the receiver is gone after {how}")
        for ix in outer_b:
            if slots_b.get(ix, 0) < 1:
                raise Violation("C02/combine_renamed_outer", f"outer label {ix} of the added network is gone after {how}")
        self.stats.probe("combine_checked")
        if inner_a & inner_b:
            self.stats.probe("combine_with_clashing_bonds")

    def _op_copy(self, op):
        a = self._net(op)
        how = op["how"]
        TN = self.qtn.TensorNetwork
        thunks = {
            "copy": lambda: a.copy(),
            "copy_v": lambda: a.copy(virtual=True),
            "copy_deep": lambda: a.copy(deep=True),
            "TN": lambda: TN(a),
            "TNv": lambda: TN(a, virtual=True),
            "view_as": lambda: a.view_as(TN),
            "view_like": lambda: a.view_like(self.nets[op["b"] % len(self.nets)]),
        }
        res = self._try(thunks[how])
        if res is not None:
            self._add_net(res)

    # .. selection ............................................................
    def _some_tags(self, tn, op, n=None):
        tags = sorted(tn.tag_map)
        if not tags:
            raise Skip()
        n = n or op.get("ntags", 1)
        out = []
        for j in range(n):
            out.append(tags[(op["a"] + 7 * j) % len(tags)])
        return sorted(set(out))

    @staticmethod
    def _brute_tags(tn, tags, which):
        inv = which[0] == "!"
        w = which.lstrip("!")
        out = []
        for tid, t in tn.tensor_map.items():
            has = [g in t.tags for g in tags]
            m = all(has) if w == "all" else any(has)
            if m != inv:
                out.append(tid)
        return set(out)

    def _op_select(self, op):
        tn = self._net(op)
        tags = self._some_tags(tn, op)
        how = op["how"]
        which = op["which"]
        if how == "getitem":
            want = self._brute_tags(tn, tags, "all")
            try:
                st, res = self.call(lambda: tn[tags])
            except Violation as v:
                if "KeyError@__getitem__" in v.cls and not want:
                    self.note("getitem_nothing")
                    return  # documented: raises KeyError when nothing matches
                raise
            if st == "rejected":
                raise Skip()
            got = {id(res)} if isinstance(res, self.tc.Tensor) else {id(t) for t in res}
            if got != {id(tn.tensor_map[tid]) for tid in want}:
                raise Violation("C02/select:getitem", f"tn[{tags}] returned {len(got)} tensors, brute force {len(want)}")
            return
        if how == "neighbors":
            res = self._try(lambda: tn.select_neighbors(tags, which="any"))
            if res is None:
                return
            sel = self._brute_tags(tn, tags, "any")
            inds = {ix for tid in sel for ix in tn.tensor_map[tid].inds}
            want = {tid for tid, t in tn.tensor_map.items()
                    if tid not in sel and any(ix in inds for ix in t.inds)}
            got = {id(t) for t in res}
            if got != {id(tn.tensor_map[tid]) for tid in want}:
                raise Violation("C02/select:neighbors", f"{len(got)} tensors vs brute force {sorted(want)}")
            return
        if how == "select_tids":
            tids = sorted(tn.tensor_map)
            if not tids:
                raise Skip()
            sub = [tids[(op["a"] + j) % len(tids)] for j in range(1 + op["b"] % 2)]
            res = self._try(lambda: tn._select_tids(sorted(set(sub)), virtual=bool(op["b"] % 3)))
            if res is not None:
                self._add_net(res)
            return
        if how == "select_any":
            which = "any"
            thunk = lambda: tn.select_any(tags)
        elif how == "select_v":
            thunk = lambda: tn.select(tags, which=which, virtual=True)
        else:
            thunk = lambda: tn.select(tags, which=which, virtual=False)
        res = self._try(thunk)
        if res is None:
            return
        want = self._brute_tags(tn, tags, which)
        if set(res.tensor_map) != want:
            raise Violation(f"C02/select:{how}", f"select({tags},{which}) gave tids {sorted(res.tensor_map)}, brute force {sorted(want)}")
        self._add_net(res)

    def _op_query(self, op):
        tn = self._net(op)
        which = op["which"]
        if tn.tag_map:
            tags = self._some_tags(tn, op)
            got = self.qcall_or_skip(lambda: tn._get_tids_from_tags(tags, which))
            want = self._brute_tags(tn, tags, which)
            if set(got) != want:
                raise Violation("C02/select:tids_from_tags", f"{tags} {which}: {sorted(got)} vs {sorted(want)}")
            ts = self.qcall_or_skip(lambda: tn.select_tensors(tags, which))
            if {id(t) for t in ts} != {id(tn.tensor_map[x]) for x in want}:
                raise Violation("C02/select:select_tensors", f"{tags} {which}")
        inds = sorted(tn.ind_map)
        if inds:
            ix = [inds[op["b"] % len(inds)]]
            if op["ntags"] == 2:
                ix.append(inds[(op["b"] // 7) % len(inds)])
            ix = sorted(set(ix))
            got = self.qcall_or_skip(lambda: tn._get_tids_from_inds(ix, which))
            inv = which[0] == "!"
            w = which.lstrip("!")
            want = set()
            for tid, t in tn.tensor_map.items():
                has = [i in t.inds for i in ix]
                m = all(has) if w == "all" else any(has)
                if m != inv:
                    want.add(tid)
            if set(got) != want:
                raise Violation("C02/select:tids_from_inds", f"{ix} {which}: {sorted(got)} vs {sorted(want)}")
            sz = self.qcall_or_skip(lambda: tn.ind_size(ix[0]))
            if sz != ind_size(ix[0]) and not ix[0].startswith("_"):
                raise Violation("C02/ind_size", f"{ix[0]} -> {sz}")
        self.stats.probe("queries")

    def qcall_or_skip(self, thunk):
        try:
            return self.qcall(thunk)
        except _Rejected:
            raise Skip() from None

    def _op_partition(self, op):
        tn = self._net(op)
        tags = self._some_tags(tn, op)
        which = op["which"]
        want = self._brute_tags(tn, tags, which)
        before = set(tn.tensor_map)
        if op["how"] == "partition_tensors":
            res = self._try(lambda: tn.partition_tensors(tags, inplace=op["inplace"], which=which))
            if res is None:
                return
            rest, ts = res
            if set(rest.tensor_map) != before - want or len(ts) != len(want):
                raise Violation("C02/partition", f"partition_tensors({tags},{which})")
            self._add_net(rest)
            self.loose.extend(ts[:2])
            self._trim_loose()
            return
        res = self._try(lambda: tn.partition(tags, which=which, inplace=op["inplace"]))
        if res is None:
            return
        t1, t2 = res
        if len(t1.tensor_map) != len(before - want) or len(t2.tensor_map) != len(want):
            raise Violation("C02/partition", f"partition({tags},{which},inplace={op['inplace']}): "
                            f"{len(t1.tensor_map)}+{len(t2.tensor_map)} vs {len(before - want)}+{len(want)}")
        self._add_net(t1)
        self._add_net(t2)

    # .. removal / replacement ...................................................
    def _op_pop(self, op):
        tn = self._net(op)
        tids = sorted(tn.tensor_map)
        if not tids:
            raise Skip()
        if op["by"] == "tid":
            tid = tids[op["a"] % len(tids)]
            t = self._try(lambda: tn.pop_tensor(tid))
        else:
            # tags identifying exactly one tensor
            cands = []
            for tid in tids:
                tg = sorted(tn.tensor_map[tid].tags)
                if tg and self._brute_tags(tn, tg, "all") == {tid}:
                    cands.append(tg)
            if not cands:
                raise Skip()
            tg = cands[op["a"] % len(cands)]
            t = self._try(lambda: tn.pop_tensor(tg))
        if t is not None:
            self.loose.append(t)
            self._trim_loose()

    def _op_delete(self, op):
        tn = self._net(op)
        tags = self._some_tags(tn, op, 1)
        if op["how"] == "delitem":
            self._try(lambda: tn.__delitem__(tags))
        else:
            self._try(lambda: tn.delete(tags, which=op["which"]))

    def _op_setitem(self, op):
        tn = self._net(op)
        cands = []
        for tid in sorted(tn.tensor_map):
            tg = sorted(tn.tensor_map[tid].tags)
            if tg and self._brute_tags(tn, tg, "all") == {tid}:
                cands.append(tg)
        if not cands:
            raise Skip()
        tg = cands[op["a"] % len(cands)]
        if op["src"] == "loose":
            cand = [t for t in self.loose if not any(t is u for u in tn.tensor_map.values())]
            if not cand:
                raise Skip()
            t = cand[op["b"] % len(cand)]
            if not self._compatible(tn, [t]):
                raise Skip()
        else:
            t = self._tensor(op["spec"])
            self.loose.append(t)
            self._trim_loose()
        self._try(lambda: tn.__setitem__(tg, t))

    def _op_remove_all(self, op):
        tn = self._net(op)
        self._try(lambda: tn.remove_all_tensors())

    def _op_consecutive(self, op):
        tn = self._net(op)
        self._try(lambda: tn.make_tids_consecutive(op["a"] % 3))

    # .. renaming .............................................................
    def _index_map(self, inds_present, op, avoid=()):
        """Rename map within one size class."""
        inds_present = sorted(i for i in inds_present if canonical(i))
        if not inds_present:
            raise Skip()
        m = {}
        for j in range(op.get("n", 1)):
            old = inds_present[(op["a"] + 5 * j) % len(inds_present)]
            pool = INDS1 if ind_size(old) == 1 else INDS
            tgt = op["target"]
            if tgt == "uuid":
                new = f"_r{(op['b'] + j) % 50}"
                if ind_size(old) == 1:
                    new = "u" + new
            elif tgt == "existing":
                same = [i for i in inds_present if i != old and ind_size(i) == ind_size(old)]
                new = same[(op["b"] + j) % len(same)] if same else pool[(op["b"] + j) % len(pool)]
            elif tgt == "swap" and j == 0 and len(inds_present) > 1:
                other = [i for i in inds_present if i != old and ind_size(i) == ind_size(old)]
                if other:
                    o = other[op["b"] % len(other)]
                    return {old: o, o: old}
                new = pool[op["b"] % len(pool)]
            else:
                new = pool[(op["b"] + j) % len(pool)]
            if new != old:
                m[old] = new
        if not m:
            raise Skip()
        return m

    @staticmethod
    def _makes_self_repeat(tensors, m):
        for t in tensors:
            new = [m.get(ix, ix) for ix in t.inds]
            if len(set(new)) != len(new) and len(set(t.inds)) == len(t.inds):
                return True
            if len(set(t.inds)) != len(t.inds) and any(ix in m for ix in t.inds):
                return True  # renaming a label that is already repeated
        return False

    def _op_reindex(self, op):
        tn = self._net(op)
        m = self._index_map(tn.ind_map, op)
        if not op.get("trace_ok") and self._makes_self_repeat(tn.tensor_map.values(), m):
            raise Skip()
        if op["inplace"]:
            self._try(lambda: tn.reindex_(m))
        else:
            res = self._try(lambda: tn.reindex(m))
            if res is not None:
                self._add_net(res)

    def _some_tensor(self, op):
        """A tensor reached through a drawn holder (a network or the user's
        own references)."""
        if self.loose and op["b"] % 4 == 0:
            return self.loose[op["a"] % len(self.loose)]
        tn = self._net(op)
        tids = sorted(tn.tensor_map)
        if not tids:
            raise Skip()
        return tn.tensor_map[tids[op["a"] % len(tids)]]

    def _op_t_reindex(self, op):
        t = self._some_tensor(op)
        if op.get("aim_repeated"):
            cands = [(tn, tid) for tn in self.nets for tid in sorted(tn.tensor_map)
                     if len(set(tn.tensor_map[tid].inds)) != len(tn.tensor_map[tid].inds)]
            if cands:
                tn, tid = cands[op["a"] % len(cands)]
                t = tn.tensor_map[tid]
                rep = sorted({ix for ix in t.inds if t.inds.count(ix) > 1 and canonical(ix)})
                if not rep:
                    raise Skip()
                old = rep[op["b"] % len(rep)]
                same = sorted(ix for ix in set(t.inds) if ix != old and canonical(ix) and ind_size(ix) == ind_size(old))
                self.stats.probe("rename_of_repeated_label")
                if op["target"] == "swap" and same:
                    o = same[op["a"] % len(same)]
                    m = {old: o, o: old}
                elif op["target"] == "existing" and same:
                    m = {old: same[op["a"] % len(same)]}
                else:
                    pool = INDS1 if ind_size(old) == 1 else INDS
                    m = {old: pool[op["b"] % len(pool)]}
                    if m[old] == old:
                        raise Skip()
                if op["how"] == "modify":
                    new_inds = tuple(m.get(ix, ix) for ix in t.inds)
                    self._try(lambda: t.modify(inds=new_inds))
                else:
                    self._try(lambda: t.reindex_(m))
                return
        if not t.inds:
            raise Skip()
        # rename only to labels of the same size; the target may already be on
        # this tensor (trace) or on others (new bond / hyper index)
        present = set(t.inds)
        allinds = set()
        for tn in self.nets:
            allinds.update(tn.ind_map)
        op2 = dict(op)
        if op["target"] == "existing":
            pool = sorted(i for i in allinds if i not in present and canonical(i)) or sorted(i for i in allinds if canonical(i))
            olds = sorted(i for i in present if canonical(i))
            if not olds:
                raise Skip()
            old = olds[op["a"] % len(olds)]
            same = [i for i in pool if ind_size(i) == ind_size(old) and i != old]
            if not same:
                raise Skip()
            m = {old: same[op["b"] % len(same)]}
        else:
            m = self._index_map(present, op2)
        if len(set(m.values())) != len(m):
            raise Skip()
        if not op.get("trace_ok") and self._makes_self_repeat([t], m):
            raise Skip()
        if op["how"] == "modify":
            new_inds = tuple(m.get(ix, ix) for ix in t.inds)
            self._try(lambda: t.modify(inds=new_inds))
        elif op["inplace"]:
            self._try(lambda: t.reindex_(m))
        else:
            t2 = self._try(lambda: t.reindex(m))
            if t2 is not None:
                self.loose.append(t2)
                self._trim_loose()

    def _tag_map(self, tags_present, op):
        tags_present = sorted(tags_present)
        if not tags_present:
            raise Skip()
        old = tags_present[op["a"] % len(tags_present)]
        new = TAGS[op["b"] % len(TAGS)]
        if new == old:
            new = TAGS[(op["b"] + 1) % len(TAGS)]
        return {old: new}

    def _op_retag(self, op):
        tn = self._net(op)
        m = self._tag_map(tn.tag_map, op)
        if op["inplace"]:
            self._try(lambda: tn.retag_(m))
        else:
            res = self._try(lambda: tn.retag(m))
            if res is not None:
                self._add_net(res)

    def _op_t_retag(self, op):
        t = self._some_tensor(op)
        how = op["how"]
        if how == "add_tag":
            self._try(lambda: t.add_tag(TAGS[op["b"] % len(TAGS)]))
        elif how == "drop_tags":
            if not t.tags:
                raise Skip()
            tg = sorted(t.tags)[op["b"] % len(t.tags)]
            self._try(lambda: t.drop_tags(tg) if op["a"] % 3 else t.drop_tags())
        elif how == "modify":
            new = [TAGS[(op["b"] + j) % len(TAGS)] for j in range(op["a"] % 3)]
            self._try(lambda: t.modify(tags=new))
        else:
            if not t.tags:
                raise Skip()
            m = self._tag_map(t.tags, op)
            if op["inplace"]:
                self._try(lambda: t.retag_(m))
            else:
                t2 = self._try(lambda: t.retag(m))
                if t2 is not None:
                    self.loose.append(t2)
                    self._trim_loose()

    def _op_add_tag(self, op):
        tn = self._net(op)
        tag = TAGS[op["b"] % len(TAGS)]
        if op["where"] is None or not tn.tag_map:
            self._try(lambda: tn.add_tag(tag))
        else:
            where = self._some_tags(tn, op, 1)
            self._try(lambda: tn.add_tag(tag, where=where, which=op["which"]))

    def _op_drop_tags(self, op):
        tn = self._net(op)
        if not tn.tag_map:
            raise Skip()
        if op["a"] % 4 == 0:
            self._try(lambda: tn.drop_tags())
        else:
            tags = self._some_tags(tn, op, 1 + op["b"] % 2)
            self._try(lambda: tn.drop_tags(tags))

    def _op_mangle(self, op):
        tn = self._net(op)
        mode = op["b"] % 3
        if mode == 1:
            # a suffix keeps the first letter, hence the canonical size
            self._try(lambda: tn.mangle_inner_(append="x"))
        elif mode == 2:
            inner = sorted(tn._inner_inds)
            if not inner:
                raise Skip()
            some = [ix for n, ix in enumerate(inner) if (op["a"] >> (n % 16)) & 1] or inner[:1]
            self._try(lambda: tn.mangle_inner_(which=some))
        else:
            self._try(lambda: tn.mangle_inner_())

    def _op_transpose(self, op):
        t = self._some_tensor(op)
        if len(t.inds) < 2 or len(set(t.inds)) != len(t.inds):
            raise Skip()
        inds = list(t.inds)
        k = op["a"] % len(inds)
        inds = inds[k:] + inds[:k]
        self._try(lambda: t.transpose_(*inds))

    # .. structural rewrites .......................................................
    def _two_connected(self, tn, op):
        """Two distinct tensors sharing a (non-hyper) bond, addressed by tid."""
        pairs = []
        for ix in sorted(tn.ind_map):
            tids = tuple(tn.ind_map[ix])
            if len(tids) == 2:
                pairs.append((ix, tids[0], tids[1]))
        if not pairs:
            raise Skip()
        return pairs[op["a"] % len(pairs)]

    def _carried_outside(self, tn):
        """Labels carried by tensor objects the user holds outside ``tn``.
        A rewrite that changes the size of such a label through ``tn`` (a
        partial view of a hyper-edge) is a user error, not a map defect."""
        mine = {id(t) for t in tn.tensor_map.values()}
        out = set()
        for other in self.nets:
            for t in other.tensor_map.values():
                if id(t) not in mine:
                    out.update(t.inds)
        for t in self.loose:
            if id(t) not in mine:
                out.update(t.inds)
        return out

    def _unique_tag(self, tn, tid, tagname):
        """Structural methods address tensors by tags: give the tensor a
        private tag (a public operation in itself)."""
        tn.tensor_map[tid].add_tag(tagname)
        return tagname

    def _op_structure(self, op):
        tn0 = self._net(op)
        what = op["what"]
        inplace = op["inplace"]
        rng = data_rng(op["data_seed"])
        tn = tn0
        res = None
        hyper = any(len(tids) > 2 for tids in tn.ind_map.values())
        repeated = any(len(set(t.inds)) != len(t.inds) for t in tn.tensor_map.values())
        if what == "contract_tags":
            tags = self._some_tags(tn, op, 1)
            if hyper or repeated:
                raise Skip()
            res = self._try(lambda: tn.contract_tags(tags, which="any", inplace=inplace))
        elif what == "contract_all":
            if hyper or repeated or not tn.tensor_map:
                raise Skip()
            res = self._try(lambda: tn.contract(all, output_inds=tuple(tn.outer_inds())))
            if isinstance(res, self.tc.Tensor):
                self.loose.append(res)
                self._trim_loose()
            return
        elif what == "contract_ind":
            ix, _, _ = self._two_connected(tn, op)
            if hyper or repeated:
                raise Skip()
            res = self._try(lambda: tn.contract_ind(ix))
            res = None
        elif what == "contract_between":
            ix, ta, tb = self._two_connected(tn, op)
            if hyper or repeated:
                raise Skip()
            self._unique_tag(tn, ta, "P")
            self._unique_tag(tn, tb, "Q")
            if len(tn.tag_map.get("P", ())) != 1 or len(tn.tag_map.get("Q", ())) != 1:
                tn.drop_tags(["P", "Q"])
                raise Skip()
            self._try(lambda: tn.contract_between("P", "Q"))
            tn.drop_tags(["P", "Q"])
        elif what == "split_tensor":
            tids = [tid for tid in sorted(tn.tensor_map) if len(tn.tensor_map[tid].inds) >= 2
                    and len(set(tn.tensor_map[tid].inds)) == len(tn.tensor_map[tid].inds)]
            if not tids:
                raise Skip()
            tid = tids[op["a"] % len(tids)]
            t = tn.tensor_map[tid]
            left = t.inds[: 1 + op["b"] % (len(t.inds) - 1)]
            self._try(lambda: tn._split_tensor_tid(tid, left_inds=left, cutoff=0.0))
        elif what == "replace_with_svd":
            tags = self._some_tags(tn, op, 1)
            if hyper or repeated:
                raise Skip()
            sel = self._brute_tags(tn, tags, "any")
            sub_outer = set()
            cnt = {}
            for tid in sel:
                for ix in tn.tensor_map[tid].inds:
                    cnt[ix] = cnt.get(ix, 0) + 1
            outer = [ix for ix, c in cnt.items() if len(tn.ind_map[ix]) > c or ix in tn._outer_inds]
            if len(outer) < 2:
                raise Skip()
            outer = sorted(outer)
            left = outer[: 1 + op["b"] % (len(outer) - 1)]
            # eps must be positive: the default (interpolative) method treats it
            # as its target precision; eps=0 makes it stop at too small a rank
            # and mislabel the factors - a misuse, not a map defect
            res = self._try(lambda: tn.replace_with_svd(tags, left, eps=1e-10, which="any", inplace=inplace))
        elif what == "gate_inds":
            outer = sorted(ix for ix in tn._outer_inds if ind_size(ix) == 2 and not ix.startswith("_"))
            if not outer or hyper or repeated:
                raise Skip()
            ix = outer[op["a"] % len(outer)]
            G = rng.uniform(0.5, 1.5, size=(2, 2))
            contract = [True, False, "split-gate"][op["b"] % 2]
            res = self._try(lambda: tn.gate_inds(G, [ix], contract=contract, inplace=inplace))
        elif what == "insert_gauge":
            ix, ta, tb = self._two_connected(tn, op)
            if hyper or repeated or ind_size(ix) != 2:
                raise Skip()
            self._unique_tag(tn, ta, "P")
            self._unique_tag(tn, tb, "Q")
            if len(tn.tag_map.get("P", ())) != 1 or len(tn.tag_map.get("Q", ())) != 1 or ta == tb:
                tn.drop_tags(["P", "Q"])
                raise Skip()
            U = rng.uniform(0.5, 1.5, size=(2, 2)) + np.eye(2)
            self._try(lambda: tn.insert_gauge(U, "P", "Q"))
            tn.drop_tags(["P", "Q"])
        elif what == "fuse_multibonds":
            if repeated or (set(tn._inner_inds) & self._carried_outside(tn)):
                raise Skip()
            res = self._try(lambda: tn.fuse_multibonds(inplace=inplace))
        elif what == "isel":
            inds = sorted(tn.ind_map)
            if not inds:
                raise Skip()
            ix = inds[op["a"] % len(inds)]
            res = self._try(lambda: tn.isel({ix: 0}, inplace=inplace))
        elif what == "squeeze":
            sq = op["b"] % 4
            if sq == 1 and not (hyper or repeated):
                res = self._try(lambda: tn.squeeze(fuse=True, inplace=inplace))
            elif sq == 2:
                ones = sorted(ix for ix in tn.ind_map if tn.ind_size(ix) == 1)
                keep = ones[: 1 + op["a"] % 2]
                res = self._try(lambda: tn.squeeze(exclude=keep, inplace=inplace))
            elif sq == 3:
                ones = sorted(ix for ix in tn.ind_map if tn.ind_size(ix) == 1)
                res = self._try(lambda: tn.squeeze(include=ones[: 1 + op["a"] % 2], inplace=inplace))
            else:
                res = self._try(lambda: tn.squeeze(inplace=inplace))
        elif what == "rank_simplify":
            if hyper or repeated:
                raise Skip()
            res = self._try(lambda: tn.rank_simplify(inplace=inplace))
        elif what == "cut_bond":
            ix, _, _ = self._two_connected(tn, op)
            self._try(lambda: tn.cut_bond(ix))
        elif what in ("canonize_between", "compress_between"):
            ix, ta, tb = self._two_connected(tn, op)
            if hyper or repeated:
                raise Skip()
            shared = set(tn.tensor_map[ta].inds) & set(tn.tensor_map[tb].inds)
            if shared & self._carried_outside(tn):
                raise Skip()
            self._unique_tag(tn, ta, "P")
            self._unique_tag(tn, tb, "Q")
            if len(tn.tag_map.get("P", ())) != 1 or len(tn.tag_map.get("Q", ())) != 1:
                tn.drop_tags(["P", "Q"])
                raise Skip()
            if what == "canonize_between":
                self._try(lambda: tn.canonize_between("P", "Q"))
            else:
                self._try(lambda: tn.compress_between("P", "Q", cutoff=0.0))
            tn.drop_tags(["P", "Q"])
        elif what == "insert_operator":
            outer = sorted(ix for ix in tn._outer_inds if ind_size(ix) == 2)
            if len(outer) < 2 or hyper or repeated:
                raise Skip()
            raise Skip()
        elif what == "replace_with_identity":
            raise Skip()
        elif what in ("new_bond", "cut_between", "expand_bond"):
            tids = sorted(tn.tensor_map)
            if len(tids) < 2:
                raise Skip()
            if what == "new_bond":
                ta = tids[op["a"] % len(tids)]
                tb = tids[(op["a"] // 7 + 1 + tids.index(ta)) % len(tids)]
                if ta == tb:
                    raise Skip()
            else:
                ix, ta, tb = self._two_connected(tn, op)
                if (hyper or repeated) or ind_size(ix) != 2:
                    raise Skip()
            self._unique_tag(tn, ta, "P")
            self._unique_tag(tn, tb, "Q")
            if len(tn.tag_map.get("P", ())) != 1 or len(tn.tag_map.get("Q", ())) != 1:
                tn.drop_tags(["P", "Q"])
                raise Skip()
            if what == "new_bond":
                self._try(lambda: tn.new_bond("P", "Q", size=2))
            elif what == "cut_between":
                self._nfresh = getattr(self, "_nfresh", 0) + 2
                self._try(lambda: tn.cut_between("P", "Q", f"_z{self._nfresh - 1}", f"_z{self._nfresh}"))
            else:
                if set(tn._inner_inds) & self._carried_outside(tn):
                    tn.drop_tags(["P", "Q"])
                    raise Skip()
                res = self._try(lambda: tn.expand_bond_dimension(3, inplace=inplace))
            tn.drop_tags(["P", "Q"])
        elif what in ("randomize", "astype", "convert_to_zero", "isometrize"):
            if not tn.tensor_map or (what == "isometrize" and (hyper or repeated)):
                raise Skip()
            if what == "convert_to_zero" and (set(tn.ind_map) & self._carried_outside(tn)):
                raise Skip()  # shrinks bonds: see _carried_outside
            if what == "randomize":
                res = self._try(lambda: tn.randomize(seed=op["data_seed"] % 1000, inplace=inplace))
            elif what == "astype":
                res = self._try(lambda: tn.astype("complex128", inplace=inplace))
            elif what == "convert_to_zero":
                self._try(lambda: tn.convert_to_zero())
            else:
                res = self._try(lambda: tn.isometrize(allow_no_left_inds=True, inplace=inplace))
        elif what in ("t_new_ind", "t_fuse", "t_squeeze", "t_isel"):
            # tensor-level rewrites through a holder: every owner must follow
            t = self._some_tensor(op)
            if len(set(t.inds)) != len(t.inds):
                raise Skip()
            if what == "t_new_ind":
                self._nfresh = getattr(self, "_nfresh", 0) + 1
                self._try(lambda: t.new_ind(f"_z{self._nfresh}", size=2))
            elif what == "t_fuse":
                free = [ix for ix in t.inds if all(len(n.ind_map.get(ix, ())) <= 1 for n in self.nets)]
                if len(free) < 2:
                    raise Skip()
                self._nfresh = getattr(self, "_nfresh", 0) + 1
                self._try(lambda: t.fuse_({f"_z{self._nfresh}": tuple(free[:2])}))
            elif what == "t_squeeze":
                self._try(lambda: t.squeeze_())
            else:
                free = [ix for ix in t.inds if all(len(n.ind_map.get(ix, ())) <= 1 for n in self.nets)]
                if not free:
                    raise Skip()
                self._try(lambda: t.isel_({free[op["b"] % len(free)]: 0}))
        elif what == "conj":
            if not tn.tensor_map:
                raise Skip()
            res = self._try(lambda: tn.conj(inplace=inplace))
        elif what == "multiply":
            if not tn.tensor_map:
                raise Skip()
            res = self._try(lambda: tn.multiply(1.5, inplace=inplace))
        else:
            raise Skip()
        if isinstance(res, self.tc.TensorNetwork):
            self._add_net(res)
        elif isinstance(res, self.tc.Tensor):
            self.loose.append(res)
            self._trim_loose()
        self._normalise_sizes()
        self.stats.probe("structure:" + what)

    def _normalise_sizes(self):
        """World convention: a label from the small alphabets always has its
        canonical size, so that any two tensors may legally share it.  A
        rewrite that changed the size of a label (fusing, compressing) is
        followed by the simulated user renaming that label - itself a public
        operation whose bookkeeping is checked."""
        self._nfresh = getattr(self, "_nfresh", 0)
        for tn in list(self.nets):
            # read the tensors, not the maps under test
            odd = []
            for t in tn.tensor_map.values():
                for ax, ix in enumerate(t.inds):
                    if not ix.startswith("_") and t.shape[ax] != ind_size(ix) and ix not in odd:
                        odd.append(ix)
            for ix in odd:
                self._nfresh += 1
                new = f"_z{self._nfresh}"
                st, _ = self.call(lambda: tn.reindex_({ix: new}))
        for t in self.loose:
            for ax, ix in enumerate(t.inds):
                if not ix.startswith("_") and t.shape[ax] != ind_size(ix):
                    self._nfresh += 1
                    t.reindex_({ix: f"_z{self._nfresh}"})

    # .. lifecycle / faults ..........................................................
    def _op_drop(self, op):
        if len(self.nets) < 2:
            raise Skip()
        i = op["net"] % len(self.nets)
        tn = self.nets.pop(i)
        n_shared = sum(1 for t in tn.tensor_map.values() if len(t._owners) > 1)
        del tn
        self.stats.fault("view_dropped")
        if n_shared:
            self.stats.probe("dropped_view_shared_tensors")

    def _op_drop_delayed(self, op):
        if len(self.nets) < 2:
            raise Skip()
        i = op["net"] % len(self.nets)
        tn = self.nets.pop(i)
        self.parked.append(Cycle(tn))
        del tn
        self.stats.fault("view_dropped_gc_delayed")

    def _op_collect(self, op):
        n = len(self.parked)
        self.parked.clear()
        gc.collect()
        if n:
            self.stats.fault("gc_collected_parked_views", n)
        if op.get("then_reuse") and self.alloc.free:
            self.stats.probe("freed_hashes_available")

    def _op_restart(self, op):
        i = op["net"] % len(self.nets) if self.nets else None
        if i is None:
            raise Skip()
        tn = self.nets[i]
        how = op["how"]
        if how == "pickle":
            new = self._try(lambda: pickle.loads(pickle.dumps(tn)))
        elif how == "deepcopy":
            new = self._try(lambda: _copy.deepcopy(tn))
        else:
            new = self._try(lambda: tn.copy(deep=True))
        if new is None:
            return
        before = self._scan(tn)
        after = self._scan(new)
        if before != after:
            raise Violation("C02/restart_changed_content", f"{how}: scan differs after round-trip")
        self.nets[i] = new
        del tn
        self.stats.fault("restart_" + how)

    def _op_fork_build(self, op):
        """Fault 'fork': a network is built by a real os.fork() child (as a
        multiprocessing worker would) and comes back pickled.  The child starts
        from the parent's interpreter state, name generator included, so the
        names it generates are the ones the parent will generate next - unless
        the library re-seeds its generator in forked children."""
        from sim.seams import run_in_forked_child

        qtn = self.qtn

        def build():
            ts = [self._tensor(s_) for s_ in op["specs"]]
            tn = qtn.TensorNetwork(ts)
            # rewrites that generate bond names in the child
            for n in range(op["rewrites"]):
                tids = [tid for tid in sorted(tn.tensor_map) if len(tn.tensor_map[tid].inds) >= 2
                        and len(set(tn.tensor_map[tid].inds)) == len(tn.tensor_map[tid].inds)]
                if not tids:
                    break
                tid = tids[(op["a"] + n) % len(tids)]
                t = tn.tensor_map[tid]
                tn._split_tensor_tid(tid, left_inds=t.inds[:1], cutoff=0.0)
            return tn

        st, tn = self.call(lambda: run_in_forked_child(build))
        if st == "rejected":
            raise Skip()
        self._add_net(tn)
        self._normalise_sizes()
        self.stats.fault("network_built_in_forked_child")

    def _op_fork_names(self, op):
        self.names.rewind(max(0, self.names.count - op["back"]))
        self.stats.fault("name_generator_forked")

    # ------------------------------------------------------------- invariants
    @staticmethod
    def _scan(tn):
        return (
            tuple((tid, tuple(t.inds), tuple(sorted(t.tags)), t.shape) for tid, t in tn.tensor_map.items()),
        )

    def check_all(self, op):
        for i, tn in enumerate(self.nets):
            # one network holding the same tensor object at two tids: the
            # owner registry (keyed by network) can only record one of them
            seen = {}
            for tid, t in tn.tensor_map.items():
                if id(t) in seen:
                    n_entries = sum(1 for ref, _ in t._owners.values() if ref() is tn)
                    if n_entries < 2:
                        raise Violation(
                            "C02/owners:same_object_twice",
                            f"net#{i} after {op['k']}: holds one tensor object at tids {seen[id(t)]} and {tid} "
                            f"but the tensor registers this network {n_entries} time(s); a rename through the "
                            f"tensor reaches only one of the two entries",
                        )
                seen[id(t)] = tid
        for i, tn in enumerate(self.nets):
            self.check_net(tn, i, op)
        self.check_ownership(op)
        self.note(op["k"], tuple((len(tn.tensor_map), len(tn.ind_map), len(tn.tag_map),
                                  len(tn._inner_inds), len(tn._outer_inds)) for tn in self.nets))

    def check_net(self, tn, i, op):
        where = f"net#{i} after {op['k']}"
        ind_scan, tag_scan, slots, sizes = {}, {}, {}, {}
        for tid, t in tn.tensor_map.items():
            for ax, ix in enumerate(t.inds):
                ind_scan.setdefault(ix, set()).add(tid)
                slots[ix] = slots.get(ix, 0) + 1
                sizes.setdefault(ix, set()).add(t.shape[ax])
            for g in t.tags:
                tag_scan.setdefault(g, set()).add(tid)
        got = {ix: set(tids) for ix, tids in tn.ind_map.items()}
        if got != ind_scan:
            bad = sorted(set(got) ^ set(ind_scan)) or sorted(ix for ix in got if got[ix] != ind_scan[ix])
            raise Violation("C02/ind_map", f"{where}: ind_map differs from a fresh scan at {bad[:4]}: "
                            f"map={ {k: sorted(got.get(k, [])) for k in bad[:4]} } scan={ {k: sorted(ind_scan.get(k, [])) for k in bad[:4]} }")
        gott = {g: set(tids) for g, tids in tn.tag_map.items()}
        if gott != tag_scan:
            bad = sorted(set(gott) ^ set(tag_scan)) or sorted(g for g in gott if gott[g] != tag_scan[g])
            raise Violation("C02/tag_map", f"{where}: tag_map differs from a fresh scan at {bad[:4]}")
        for ix, tids in tn.ind_map.items():
            if len(tids) != len(set(tids)):
                raise Violation("C02/ind_map", f"{where}: duplicate tid under {ix}")
        inner, outer = set(tn._inner_inds), set(tn._outer_inds)
        stale = [ix for ix in (inner | outer) if ix not in slots]
        neither = [ix for ix in slots if ix not in inner and ix not in outer]
        both = [ix for ix in slots if ix in inner and ix in outer]
        if stale or neither or both:
            raise Violation("C02/inner_outer:stale",
                            f"{where}: labels no tensor carries but classified: {sorted(stale)}; carried but "
                            f"unclassified: {sorted(neither)}; in both sets: {sorted(both)}")
        for ix, c in slots.items():
            want_inner = c >= 2
            if (ix in inner) != want_inner:
                if len(ind_scan[ix]) == 1 and c >= 2:
                    raise Violation("C02/inner_outer:self_repeated",
                                    f"{where}: label {ix} occupies {c} slots of one tensor and is listed as outer "
                                    f"(a network freshly built from the same tensors lists it as inner)")
                raise Violation("C02/inner_outer",
                                f"{where}: label {ix} occupies {c} slots on tensors {sorted(ind_scan[ix])} but is "
                                f"listed as {'inner' if ix in inner else 'outer'}")
        if set(tn.inner_inds()) != inner or set(tn.outer_inds()) != outer:
            raise Violation("C02/inner_outer", f"{where}: inner_inds()/outer_inds() disagree with the cached sets")
        for ix, szs in sizes.items():
            if len(szs) != 1:
                raise Violation("C02/sizes", f"{where}: label {ix} has sizes {sorted(szs)}")
        st, res = self.call(tn.check)
        if st == "rejected":
            raise Violation("C02/check", f"{where}: tn.check() -> {res}")

    def check_ownership(self, op):
        where = f"after {op['k']}"
        tensors = {}
        for tn in self.nets:
            for t in tn.tensor_map.values():
                tensors[id(t)] = t
        for t in self.loose:
            tensors[id(t)] = t
        live = {id(tn): tn for tn in self.nets}
        for t in tensors.values():
            owners = []
            for ref, tid in t._owners.values():
                o = ref()
                if o is not None:
                    owners.append((o, tid))
            for o, tid in owners:
                if o.tensor_map.get(tid) is not t:
                    raise Violation("C02/owners:stale",
                                    f"{where}: a tensor lists a live network as owner at tid {tid} but that "
                                    f"network holds {'nothing' if tid not in o.tensor_map else 'another tensor'} there")
            have = {(id(o), tid) for o, tid in owners}
            for tn in self.nets:
                for tid, u in tn.tensor_map.items():
                    if u is t and (id(tn), tid) not in have:
                        raise Violation("C02/owners:missing",
                                        f"{where}: network holds a tensor at tid {tid} that does not list it as owner "
                                        f"(renames through the tensor will not reach this network)")
        self.stats.probe("ownership_checks", len(tensors))

    # ------------------------------------------------------------- shrinking
    @staticmethod
    def simplify_op(op):
        if op.get("reuse"):
            yield {**op, "reuse": False}
        if op.get("k") == "new" and len(op.get("specs", [])) > 1:
            yield {**op, "specs": op["specs"][:1]}
            yield {**op, "specs": op["specs"][1:]}
        for key in ("a", "b"):
            if op.get(key):
                yield {**op, key: 0}
                yield {**op, key: op[key] % 8}

    @staticmethod
    def simplify_knobs(knobs):
        if knobs.get("size1"):
            yield {**knobs, "size1": False}


class _Rejected(Exception):
    pass
