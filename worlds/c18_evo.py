"""EvoWorld (C18): ``quimb.Evolution`` objects driven through histories of
requested times, generator abandonment, and cancellation at a scheduler-chosen
integrator step (``int_stop``), observed through callbacks.  Oracle:
``expm(-iH(t-t0))`` (own fixed-step RK4 propagator for time-dependent H) and
conservation invariants at every observed state.
"""

import math

import numpy as np
import scipy.linalg as sla
import scipy.sparse as sp
import scipy.sparse.linalg as spla

from sim.engine import World, Violation, Skip, HarnessError, data_rng, pick, wchoice, maxdiff

METHODS = ["solve", "integrate", "integrate_small", "expm"]
HKINDS = ["dense", "sparse", "tuple", "linop", "callable", "lazy"]


class EvoWorld(World):
    PROP = "C18"
    NAME = "evo"
    LEVEL = "exploration"
    SIM_TIME_UNIT = "physical evolution time (sum of |t - t_prev|)"
    RUNS = {"quick": 10000, "thorough": 250000}
    WALL_CAP = {"quick": 900, "thorough": 3300}
    RULE = (
        "one run = one Evolution object for a drawn (method, state kind, Hamiltonian "
        "representation, t0, dim 2-8, callbacks) combination - construction may be "
        "refused - and a drawn history of update_to times (non-uniform, repeated, "
        "non-monotonic for solve), at_times generators advanced and abandoned, and "
        "cancellations through int_stop at a drawn accepted step; non-trivial = the "
        "combination was accepted and >= 2 states were observed; distinct = different "
        "digest of (knobs, ops, verdict observations)"
    )
    COMPONENTS = {
        "real": [
            "quimb.evo.Evolution: constructor and support checks, callbacks plumbing (Try2Then3Args), solved-Hamiltonian updates, integrator set-up (scipy complex_ode dopri5/dop853 run for real) and update, single-shot expm update, at_times",
            "right-hand sides schrodinger_eq_ket/_dop/_timedep/_vectorized as used by the integrator",
            "quimb.linalg.base_linalg.expm_multiply (scipy backend)",
        ],
        "stub": [
            "cancellation: int_stop callable supplied by the simulator returns -1 at a recorded accepted-step count",
            "terminal: with progbar=True the real tqdm progress bars run with output disabled",
        ],
    }
    ASSUMPTIONS = [
        "scipy.linalg.expm (time-independent) and an own fixed-step RK4 propagator with >= 3000 steps (time-dependent) are the reference",
        "integration tolerance 2e-6 * max(1, ||H|| |t - t0|) for method='integrate' (scipy defaults rtol 1e-6), 1e-9 for solve / expm",
    ]

    # ------------------------------------------------------------------ knobs
    @staticmethod
    def draw_knobs(S):
        r = S["knobs"]
        method = pick(r, METHODS)
        # quimb.Lazy is not among the representations the property lists (it is
        # refused with an AttributeError, late for method="expm"): left out
        hkind = pick(r, ["dense", "dense", "sparse", "tuple", "linop", "callable"])
        return {
            "d": r.choice([2, 3, 4, 4, 5, 8]),
            "method": method,
            "hkind": hkind,
            "state": r.choice(["ket", "ket", "dop_pure", "dop_mixed"]),
            "t0": r.choice([0.0, 0.0, 0.7, -1.3]),
            "seed": r.randrange(2**31),
            "compute": r.choice(["none", "single2", "single3", "dict"]),
            "int_stop": r.random() < 0.35,
            "real_h": r.random() < 0.3,
            "max_steps": r.choice([3, 5, 8]),
            # progress reporting re-installs the integrator's step callback
            # on every update_to (drawn last: earlier knobs keep their values)
            "progbar": r.random() < 0.25,
            # argument forms: memory layout / sparse format / eigenpair order of
            # the Hamiltonian, container of p0, type of the time argument
            "hvar": r.randrange(4),
            "pvar": r.randrange(3),
            "tvar": r.randrange(3),
        }

    # ------------------------------------------------------------------ setup
    def __init__(self, knobs, stats):
        super().__init__(knobs, stats)
        import quimb as qu

        self.qu = qu
        kn = knobs
        rng = data_rng(kn["seed"])
        d = kn["d"]
        A = rng.normal(size=(d, d))
        if not kn["real_h"]:
            A = A + 1j * rng.normal(size=(d, d))
        self.H0 = (A + A.conj().T) / 2
        B = rng.normal(size=(d, d)) + 1j * rng.normal(size=(d, d))
        self.H1 = (B + B.conj().T) / 4
        self.timedep = kn["hkind"] == "callable"
        v = rng.normal(size=d) + 1j * rng.normal(size=d)
        v = v / np.linalg.norm(v)
        if kn["state"] == "ket":
            self.p0 = v.reshape(d, 1)
        elif kn["state"] == "dop_pure":
            self.p0 = np.outer(v, v.conj())
        else:
            w = rng.normal(size=d) + 1j * rng.normal(size=d)
            w = w / np.linalg.norm(w)
            self.p0 = 0.6 * np.outer(v, v.conj()) + 0.4 * np.outer(w, w.conj())
        self.isdop = kn["state"] != "ket"
        self.t0 = kn["t0"]
        self.normH = float(np.linalg.norm(self.H0, 2) + (np.linalg.norm(self.H1, 2) if self.timedep else 0.0))
        self.seen = []  # (t, state copy) seen by compute callbacks
        self.accepted_steps = 0
        self.stop_at = None
        self.evo = None
        self.gen = None
        self.tcur = self.t0
        self.nobs = 0
        self._prop_cache = {}
        self._build()

    def _H(self, t):
        if self.timedep:
            return self.H0 + math.sin(1.3 * t + 0.2) * self.H1
        return self.H0

    def _ham_arg(self):
        qu = self.qu
        kn = self.knobs
        hk = kn["hkind"]
        H = self.H0
        hv = kn.get("hvar", 0)
        if hk == "dense":
            if hv == 1:
                return np.asfortranarray(H)  # plain ndarray, column-major
            if hv == 2:
                return qu.qarray(np.ascontiguousarray(H.T).T)  # non-contiguous view
            if hv == 3:
                return np.array(H)
            return qu.qarray(H)
        if hk == "sparse":
            return [sp.csr_matrix, sp.csc_matrix, sp.coo_matrix, sp.bsr_matrix][hv](H)
        if hk == "tuple":
            evals, evecs = np.linalg.eigh(H)
            if hv in (1, 3):
                # any eigen-decomposition will do: unsorted pairs
                perm = data_rng(kn["seed"] + 17).permutation(len(evals))
                evals, evecs = evals[perm], evecs[:, perm]
            if hv >= 2:
                return (evals, np.array(evecs))
            return (evals, qu.qarray(evecs))
        if hk == "linop":
            return spla.aslinearoperator(H)
        if hk == "lazy":
            if not hasattr(qu, "Lazy"):
                return qu.qarray(H)
            return qu.Lazy(lambda: qu.qarray(H), shape=H.shape)
        if hv == 1:
            return lambda t: sp.csr_matrix(self._H(t))
        if hv == 2:
            return lambda t: np.asfortranarray(self._H(t))
        return lambda t: qu.qarray(self._H(t))

    def _build(self):
        qu = self.qu
        kn = self.knobs
        method = kn["method"]
        kw = {}
        if method.startswith("integrate"):
            kw["method"] = "integrate"
            kw["int_small_step"] = method == "integrate_small"
        else:
            kw["method"] = method
        seen = self.seen

        def rec2(t, p):
            seen.append((float(t), np.array(p)))
            return float(np.real(np.trace(p @ p.conj().T))) if p.shape[1] > 1 else float(np.linalg.norm(p))

        def rec3(t, p, H):
            seen.append((float(t), np.array(p)))
            return 0.0

        comp = kn["compute"]
        if comp == "single2":
            kw["compute"] = rec2
        elif comp == "single3":
            kw["compute"] = rec3
        elif comp == "dict":
            kw["compute"] = {"a": rec2, "t": lambda t, p: float(t)}
        if kn["int_stop"] and kw["method"] == "integrate":
            def int_stop(t, p):
                self.accepted_steps += 1
                seen.append((float(t), np.array(p)))
                if self.stop_at is not None and self.accepted_steps >= self.stop_at:
                    self.stop_at = None
                    self.stats.fault("integration_cancelled")
                    return -1
                return 0
            kw["int_stop"] = int_stop
        pv = kn.get("pvar", 0)
        if pv == 1:
            p0 = np.array(self.p0)
        elif pv == 2 and not self.isdop:
            p0 = np.array(self.p0).reshape(-1)  # 1-D array for a ket
        else:
            p0 = qu.qarray(self.p0)
        self._unpatch = None
        if kn.get("progbar"):
            # the terminal is the seam: the real tqdm-based bars run, silenced
            import functools

            import quimb.evo as qevo

            saved = (qevo.continuous_progbar, qevo.progbar)
            qevo.continuous_progbar = functools.partial(saved[0], disable=True)
            qevo.progbar = functools.partial(saved[1], disable=True)

            def unpatch():
                qevo.continuous_progbar, qevo.progbar = saved

            self._unpatch = unpatch
            self.stats.probe("progbar_runs")
        plain = (kn["hkind"] in ("dense", "callable") and kn.get("hvar", 0) in (1, 2, 3)) or kn.get("pvar", 0) or \
            (kn["hkind"] == "tuple" and kn.get("hvar", 0) >= 2) or (kn["hkind"] == "sparse" and kn.get("hvar", 0))
        try:
            st, evo = self.call(lambda: qu.Evolution(p0, self._ham_arg(), t0=self.t0, progbar=bool(kn.get("progbar")), **kw))
        except Violation as v:
            # a container quimb does not treat as an operator (plain ndarray,
            # other sparse formats) may be refused - with whatever exception -
            # at construction: refusal is within the property
            if plain and v.cls.startswith("C18/internal:"):
                st, evo = "rejected", v
                self.stats.probe("plain_container_refused:" + kn["method"] + ":" + kn["hkind"])
            else:
                raise
        if st == "rejected":
            self.stats.outcome("combination_rejected")
            self.stats.probe(f"rejected:{kn['method']}:{kn['state']}:{kn['hkind']}")
            self.evo = None
            self.note("rejected_combo")
            return
        self.evo = evo
        self.stats.probe(f"accepted:{kn['method']}:{kn['state']}:{kn['hkind']}")
        self._check("construction", None)

    def close(self):
        if getattr(self, "_unpatch", None):
            self._unpatch()
        if self.gen is not None:
            try:
                self.gen.close()
            except Exception:  # noqa: BLE001
                pass

    @classmethod
    def warmup(cls):
        from sim import engine

        for s in range(40):
            engine.run_seed(cls, 930_000_000 + s)

    @staticmethod
    def nontrivial(trace, stats):
        return stats.probes.get("states_observed", 0) >= 2

    def abstract_state(self):
        return (self.evo is not None, round(self.tcur, 4), self.gen is not None)

    # ------------------------------------------------------------ generation
    def gen_op(self, S):
        r = S["ops"]
        kn = self.knobs
        if self.evo is None:
            return None
        monotone = kn["method"] != "solve"
        if self.gen is not None:
            return {"k": "gen_next", "abandon": r.random() < 0.25}
        c = r.random()
        def next_t():
            kind = wchoice(r, [("forward", 5), ("repeat", 1), ("tiny", 1), ("back", 0 if monotone else 2), ("to_t0", 0 if monotone else 0.5)])
            if kind == "forward":
                return round(self.tcur + r.uniform(0.05, 1.5), 4)
            if kind == "repeat":
                return self.tcur
            if kind == "tiny":
                return round(self.tcur + r.uniform(1e-4, 1e-2), 6)
            if kind == "to_t0":
                return self.t0
            return round(self.tcur - r.uniform(0.05, 1.0), 4)
        if c < 0.07:
            # the usual way to ask for a sweep: an evenly spaced numpy array
            start = round(self.tcur + r.choice([0.0, 0.0, r.uniform(0.0, 0.5)]), 4)
            return {"k": "at_times", "linspace": [start, round(start + r.uniform(0.3, 1.5), 4), r.choice([3, 4, 6])]}
        if c < 0.2:
            n = r.choice([1, 2, 3])
            ts = []
            t = self.tcur
            for _ in range(n):
                if monotone:
                    t = round(t + r.uniform(0.0, 0.8), 4)
                else:
                    t = round(t + r.uniform(-0.5, 0.8), 4)
                ts.append(t)
            return {"k": "at_times", "ts": ts}
        op = {"k": "update_to", "t": next_t()}
        if kn["int_stop"] and kn["method"].startswith("integrate") and r.random() < 0.5:
            op["stop_after"] = r.choice([1, 2, 3, 5, 8])
        return op

    # ------------------------------------------------------------- execution
    def apply(self, op):
        if self.evo is None:
            raise Skip()
        fn = getattr(self, "_op_" + op["k"], None)
        if fn is None:
            raise Skip()
        fn(op)

    def _op_update_to(self, op):
        evo = self.evo
        t = op["t"]
        if self.knobs["method"] != "solve" and t < self.tcur:
            raise Skip()
        if op.get("stop_after") and self.knobs["int_stop"] and self.knobs["method"].startswith("integrate"):
            self.stop_at = self.accepted_steps + op["stop_after"]
        n_seen = len(self.seen)
        tv = self.knobs.get("tvar", 0)
        targ = np.float64(t) if tv == 1 else (np.asarray(t) if tv == 2 else t)
        st, res = self.call(lambda: evo.update_to(targ))
        if st == "rejected":
            raise Violation("C18/rejected_valid_input", f"update_to({t}): {res!r}")
        cancelled = self.stop_at is None and op.get("stop_after") and self.knobs["int_stop"] \
            and self.knobs["method"].startswith("integrate") and abs(float(evo.t) - t) > 1e-12
        self.stop_at = None
        self.stats.sim_time += abs(float(evo.t) - self.tcur)
        self._check(f"update_to({t})", None if cancelled else t, n_seen)
        self.tcur = float(evo.t)

    def _op_at_times(self, op):
        if op.get("linspace"):
            a, b, n = op["linspace"]
            if self.knobs["method"] != "solve" and a < self.tcur:
                a, b = self.tcur, self.tcur + (b - a)
            ts = np.linspace(a, b, int(n))
            self.stats.probe("at_times_linspace_array")
        else:
            ts = list(op["ts"])
            if self.knobs["method"] != "solve":
                ts = [max(t, self.tcur) for t in ts]
                ts = list(np.maximum.accumulate(ts)) if ts else ts
        st, gen = self.call(lambda: self.evo.at_times(ts))
        if st == "rejected":
            raise Skip()
        self.gen = gen
        self.gen_ts = [float(t) for t in ts]
        self.gen_pos = 0
        self.note("at_times", len(ts))

    def _op_gen_next(self, op):
        if self.gen is None:
            raise Skip()
        if op.get("abandon"):
            self.gen.close()
            self.gen = None
            self.stats.fault("generator_abandoned")
            self._check("abandoned at_times", None)
            return
        n_seen = len(self.seen)
        st, pt = self.call(lambda: next(self.gen, None))
        if st == "rejected":
            raise Violation("C18/rejected_valid_input", repr(pt))
        if pt is None:
            if self.gen_pos != len(self.gen_ts):
                raise Violation("C18/at_times", f"generator stopped after {self.gen_pos} of {len(self.gen_ts)} times")
            self.gen = None
            return
        if self.gen_pos >= len(self.gen_ts):
            raise Violation("C18/at_times", "generator yielded more states than times")
        t = self.gen_ts[self.gen_pos]
        self.gen_pos += 1
        self.stats.sim_time += abs(float(self.evo.t) - self.tcur)
        self._check(f"at_times yield {self.gen_pos}", t, n_seen, yielded=pt)
        self.tcur = float(self.evo.t)

    # ------------------------------------------------------------- oracle
    def _propagator(self, t):
        """U(t, t0)."""
        key = round(float(t), 12)
        U = self._prop_cache.get(key)
        if U is not None:
            return U
        dt_tot = t - self.t0
        if not self.timedep:
            U = sla.expm(-1j * self.H0 * dt_tot)
        else:
            d = self.H0.shape[0]
            n = max(200, int(3000 * abs(dt_tot) / 3.0) + 200)
            h = dt_tot / n
            U = np.eye(d, dtype=complex)
            tt = self.t0
            for _ in range(n):
                k1 = -1j * self._H(tt) @ U
                k2 = -1j * self._H(tt + h / 2) @ (U + h / 2 * k1)
                k3 = -1j * self._H(tt + h / 2) @ (U + h / 2 * k2)
                k4 = -1j * self._H(tt + h) @ (U + h * k3)
                U = U + h / 6 * (k1 + 2 * k2 + 2 * k3 + k4)
                tt += h
        if len(self._prop_cache) > 400:
            self._prop_cache.clear()
        self._prop_cache[key] = U
        return U

    def _model(self, t):
        U = self._propagator(t)
        if self.isdop:
            return U @ self.p0 @ U.conj().T
        return U @ self.p0

    def _tol(self, t):
        if self.knobs["method"].startswith("integrate"):
            return 2e-6 * max(1.0, self.normH * abs(t - self.t0))
        return 1e-9 * max(1.0, self.normH * abs(t - self.t0))

    def _judge_state(self, t, p, where):
        p = np.asarray(p)
        want = self._model(t)
        if p.shape != want.shape:
            if p.size == want.size:
                p = p.reshape(want.shape)
            else:
                raise Violation("C18/state", f"{where}: state has shape {p.shape}, expected {want.shape}")
        tol = self._tol(t)
        d = maxdiff(p, want)
        if not d <= tol:
            kn = self.knobs
            raise Violation(f"C18/state:{kn['method']}:{'dop' if self.isdop else 'ket'}",
                            f"{where}: state at t={t} differs from exp(-iH(t-t0)) applied to p0 by {d:.3g} (tol {tol:.2g}; H {kn['hkind']})")
        # conservation
        ctol = max(10 * tol, 1e-8)
        if self.isdop:
            tr = np.trace(p)
            if not abs(tr - np.trace(self.p0)) <= ctol:
                raise Violation("C18/conservation:trace", f"{where}: trace {tr}")
            pur = np.real(np.trace(p @ p))
            if not abs(pur - np.real(np.trace(self.p0 @ self.p0))) <= ctol:
                raise Violation("C18/conservation:purity", f"{where}: purity {pur}")
            if not self.timedep:
                e = np.real(np.trace(self.H0 @ p))
                if not abs(e - np.real(np.trace(self.H0 @ self.p0))) <= ctol * max(1.0, self.normH):
                    raise Violation("C18/conservation:energy", f"{where}: energy {e}")
        else:
            n = np.linalg.norm(p)
            if not abs(n - 1.0) <= ctol:
                raise Violation("C18/conservation:norm", f"{where}: norm {n}")
            if not self.timedep:
                e = np.real(np.vdot(p, self.H0 @ p))
                e0 = np.real(np.vdot(self.p0, self.H0 @ self.p0))
                if not abs(e - e0) <= ctol * max(1.0, self.normH):
                    raise Violation("C18/conservation:energy", f"{where}: energy {e} vs {e0}")
        self.nobs += 1
        self.stats.probe("states_observed")

    def _check(self, where, target, n_seen=0, yielded=None):
        evo = self.evo
        t = float(evo.t)
        if target is not None:
            if not abs(t - target) <= 1e-10 * max(1.0, abs(target)):
                raise Violation("C18/time", f"{where}: evo.t = {t!r}, requested {target!r}")
        else:
            # cancelled or abandoned: a time not beyond what was asked, at which the state is right
            pass
        self._judge_state(t, evo.pt, where)
        if yielded is not None:
            self._judge_state(t, yielded, where + " (yielded state)")
        # callbacks saw the same states
        new = self.seen[n_seen:]
        for (tc, pc) in new[-12:]:
            self._judge_state(tc, pc, where + f" (callback at t={tc:.6g})")
        if new:
            self.stats.probe("callback_states_checked", min(len(new), 12))
        if target is not None and self.knobs["compute"] != "none" and not self.knobs["method"].startswith("integrate"):
            if not new or abs(new[-1][0] - t) > 1e-12:
                raise Violation("C18/callback", f"{where}: compute callback was not called with the final time")
            if maxdiff(new[-1][1].reshape(np.asarray(evo.pt).shape), np.asarray(evo.pt)) > 1e-12:
                raise Violation("C18/callback", f"{where}: compute callback saw a different state than evo.pt")
        # results container shape
        comp = self.knobs["compute"]
        if comp == "dict":
            res = evo.results
            if set(res) != {"a", "t"} or len(res["a"]) != len(res["t"]):
                raise Violation("C18/callback", f"{where}: results dict malformed")
        self.note(where.split("(")[0], round(t, 9))

    # ------------------------------------------------------------- shrinking
    @staticmethod
    def simplify_op(op):
        if op.get("stop_after"):
            yield {k: v for k, v in op.items() if k != "stop_after"}
        if op.get("k") == "at_times" and len(op.get("ts") or []) > 1:
            yield {**op, "ts": op["ts"][:1]}

    @staticmethod
    def simplify_knobs(knobs):
        if knobs["d"] > 2:
            yield {**knobs, "d": 2}
        if knobs["t0"] != 0.0:
            yield {**knobs, "t0": 0.0}
        if knobs["compute"] != "none":
            yield {**knobs, "compute": "none"}
        if knobs["int_stop"]:
            yield {**knobs, "int_stop": False}
        if knobs.get("progbar"):
            yield {**knobs, "progbar": False}
        if knobs["hkind"] != "dense":
            yield {**knobs, "hkind": "dense"}
