"""BPWorld (C14): belief propagation as a message-passing system under a
simulated scheduler.

Configuration A: the library's own run loop with drawn options / schedules /
initial messages, fault free, compared with exact contraction and marginals.
Configuration B: the simulator replaces the round loop (activations through
``touched``), injects message faults, tracks which messages must already be
exact ("settled"), and requires exactness within a bounded number of fair
rounds once the faults stop.
"""

import math

import numpy as np

from sim.engine import (
    World,
    Violation,
    Skip,
    HarnessError,
    data_rng,
    pick,
    wchoice,
)
from sim.simpool import PoolSeam
from worlds.bp_model import (
    FLAVOURS,
    TWO_NORM,
    HYPER,
    LAZY,
    build_net,
    positive_init,
    psd_matrix,
    same_direction,
    normed,
)

SETTLED_TOL = 1e-8


# --------------------------------------------------------------------------- #
# adapters: one mailbox interface for six flavours


class Adapter:
    def __init__(self, net, flavour, opts, seam=None):
        import quimb.tensor as qtn
        import quimb.tensor.belief_propagation as qbp

        self.net = net
        self.fl = flavour
        self.opts = opts
        self.qtn = qtn
        self.qbp = qbp
        self._exact = {}
        order = list(range(len(net.tensors)))
        if opts.get("order_seed") is not None:
            data_rng(opts["order_seed"]).shuffle(order)
        ts = []
        for k in order:
            t = net.tensors[k]
            ts.append(qtn.Tensor(t["data"], t["inds"], tags=[t["tag"], f"S{t['site']}"]))
        self.tn = qtn.TensorNetwork(ts)
        if self.opts.get("exponent"):
            # the same network with its scale moved into ``tn.exponent``
            self.tn.equalize_norms_(1.0)
        self.site_tags = [f"S{s}" for s in range(net.nsites)]
        self.bp = self._make()
        btn = self.bp.tn
        self.tid = {k: next(iter(btn._get_tids_from_tags(net.tensors[k]["tag"])))
                    for k in range(len(net.tensors))}
        self.k_of_tid = {v: k for k, v in self.tid.items()}
        self._build_graph()

    # ---- construction --------------------------------------------------------
    def common_kw(self):
        o = self.opts
        kw = dict(damping=o.get("damping", 0.0), update=o.get("update", "sequential"))
        if o.get("normalize"):
            kw["normalize"] = o["normalize"]
        if o.get("distance"):
            kw["distance"] = o["distance"]
        return kw

    def _make(self):
        o = self.opts
        fl = self.fl
        qbp = self.qbp
        kw = self.common_kw()
        init = o.get("init_seed")
        dt = complex if np.iscomplexobj(self.net.tensors[0]["data"]) else float
        _pi = globals()["positive_init"]
        positive_init = lambda seed: _pi(seed, dt)  # noqa: E731
        if fl == "D1BP":
            return qbp.D1BP(self.tn, messages=positive_init(init) if init is not None else None,
                            local_convergence=o.get("lc", True),
                            contract_every=o.get("contract_every"), **kw)
        if fl == "HD1BP":
            return qbp.HD1BP(self.tn, messages=positive_init(init) if init is not None else None, **kw)
        if fl == "HV1BP":
            kw["update"] = "parallel"
            kw.setdefault("normalize", "L2")
            kw.setdefault("distance", "L2")
            if kw["normalize"] not in ("L1", "L2", "Linf"):
                kw["normalize"] = "L2"
            if kw["distance"] not in ("L1", "L2", "Linf"):
                kw["distance"] = "L2"
            msgs = None
            if init is not None:
                msgs = positive_init(init) if init % 3 else "dense"
            return qbp.HV1BP(self.tn, messages=msgs, thread_pool=o.get("pool") or False,
                             contract_every=o.get("contract_every"), **kw)
        if fl == "L1BP":
            return qbp.L1BP(self.tn, site_tags=self.site_tags,
                            local_convergence=o.get("lc", True),
                            message_init_function=positive_init(init) if init is not None else None,
                            contract_every=o.get("contract_every"), **kw)
        if fl == "D2BP":
            msgs = None
            if init is not None:
                rng = data_rng(init)
                msgs = {}
                dt = complex if np.iscomplexobj(self.net.tensors[0]["data"]) else float
                for ix in sorted(self.net.bond_inds()):
                    for tid in sorted(self.tn.ind_map[ix]):
                        msgs[ix, tid] = psd_matrix(rng, self.net.sizes[ix], dt)
            return qbp.D2BP(self.tn, messages=msgs, local_convergence=o.get("lc", True),
                            smudge=o.get("smudge", 0.0),
                            contract_every=o.get("contract_every"), **kw)
        if fl == "L2BP":
            return qbp.L2BP(self.tn, site_tags=self.site_tags,
                            local_convergence=o.get("lc", True),
                            contract_every=o.get("contract_every"), **kw)
        raise HarnessError(fl)

    # ---- graph structure -----------------------------------------------------
    def _build_graph(self):
        net = self.net
        fl = self.fl
        self.mk_list = []
        self.deps = {}
        self.units = None
        self.unit_out = {}
        if fl in HYPER:
            for k, t in enumerate(net.tensors):
                for ix in t["inds"]:
                    self.mk_list.append(("ti", k, ix))
                    self.mk_list.append(("it", ix, k))
            for k, t in enumerate(net.tensors):
                for ix in t["inds"]:
                    self.deps["ti", k, ix] = [("it", jx, k) for jx in t["inds"] if jx != ix]
                    self.deps["it", ix, k] = [("ti", j, ix) for j in net.ind_tensors[ix] if j != k]
            return
        if fl in LAZY:
            g = net.site_graph()
            nodes = range(net.nsites)
        else:
            g = {}
            for ix, ks in net.ind_tensors.items():
                if len(ks) == 2:
                    g[tuple(sorted(ks))] = (ix,)
            nodes = range(len(net.tensors))
        self.graph = g
        adj = {a: [] for a in nodes}
        for a, b in g:
            adj[a].append(b)
            adj[b].append(a)
        self.adj = adj
        for a, b in g:
            self.mk_list += [("m", a, b), ("m", b, a)]
        for (_, a, b) in self.mk_list:
            self.deps["m", a, b] = [("m", c, a) for c in adj[a] if c != b]
        if fl == "D1BP":
            self.units = [a for a in nodes if adj[a]]
            self.unit_out = {a: [("m", a, b) for b in adj[a]] for a in self.units}
        else:
            self.units = list(self.mk_list)
            self.unit_out = {u: [u] for u in self.units}

    def edge_inds(self, a, b):
        return self.graph[(a, b) if a < b else (b, a)]

    # ---- library keys --------------------------------------------------------
    def lib_key(self, mk):
        fl = self.fl
        if mk[0] == "ti":
            return (self.tid[mk[1]], mk[2])
        if mk[0] == "it":
            return (mk[1], self.tid[mk[2]])
        _, a, b = mk
        if fl in LAZY:
            return (f"S{a}", f"S{b}")
        (ix,) = self.edge_inds(a, b)
        return (ix, self.tid[b])

    def unit_lib(self, u):
        if self.fl == "D1BP":
            return self.tid[u]
        return self.lib_key(u)

    def touch(self, units):
        from quimb.utils import oset

        self.bp.touched = oset(self.unit_lib(u) for u in units)

    # ---- mailboxes --------------------------------------------------------------
    def get(self, mk):
        bp = self.bp
        key = self.lib_key(mk)
        if self.fl == "HV1BP":
            if mk[0] == "ti":
                rank, p, b = bp.input_locs_m[key]
                return np.array(bp.batched_inputs_m[rank][p, b, :])
            rank, p, b = bp.input_locs_t[key]
            return np.array(bp.batched_inputs_t[rank][p, b, :])
        m = bp.messages[key]
        if self.fl in LAZY:
            return np.array(m.data)
        return np.array(m)

    def put(self, mk, arr):
        bp = self.bp
        key = self.lib_key(mk)
        arr = np.array(arr)
        if self.fl == "HV1BP":
            if mk[0] == "ti":
                rank, p, b = bp.input_locs_m[key]
                bp.batched_inputs_m[rank][p, b, :] = arr
            else:
                rank, p, b = bp.input_locs_t[key]
                bp.batched_inputs_t[rank][p, b, :] = arr
        elif self.fl in LAZY:
            bp.messages[key].modify(data=arr)
        elif self.fl == "D2BP":
            # through the property setter, which invalidates the conditioned copies
            msgs = dict(bp.messages)
            msgs[key] = arr
            bp.messages = msgs
        else:
            bp.messages[key] = arr

    def lib_inds(self, mk):
        """Axis labels of the library's message, in model names."""
        fl = self.fl
        if fl in LAZY:
            tm = self.bp.messages[self.lib_key(mk)]
            out = []
            for ix in tm.inds:
                if ix.endswith("_l2bp*"):
                    out.append(ix[: -len("_l2bp*")] + "*")
                else:
                    out.append(ix)
            return out
        if fl == "D2BP":
            (ix,) = self.edge_inds(mk[1], mk[2])
            return [ix + "*", ix]
        if mk[0] == "m":
            (ix,) = self.edge_inds(mk[1], mk[2])
            return [ix]
        return [mk[2]] if mk[0] == "ti" else [mk[1]]

    def exact(self, mk):
        e = self._exact.get(mk)
        if e is not None:
            return e
        net = self.net
        out = self.lib_inds(mk)
        if mk[0] == "ti":
            ids = net.branch(("t", mk[1]), (mk[1], mk[2]))
        elif mk[0] == "it":
            ids = [k for k in net.ind_tensors[mk[1]] if k != mk[2]]
            full = set()
            for k in ids:
                full.update(net.branch(("t", k), (k, mk[1])))
            ids = sorted(full)
        elif self.fl in LAZY:
            sites = net.site_branch(mk[1], mk[2])
            ids = [k for k, t in enumerate(net.tensors) if t["site"] in sites]
        else:
            (ix,) = self.edge_inds(mk[1], mk[2])
            ids = net.branch(("t", mk[1]), (mk[2], ix))
        if net.two_norm:
            e = net.norm_einsum(ids, out)
        else:
            e = net.einsum(ids, out)
        self._exact[mk] = e
        return e

    def random_mailbox(self, mk, rng):
        cur = self.get(mk)
        if self.fl == "D2BP":
            return psd_matrix(rng, cur.shape[0], complex if np.iscomplexobj(cur) else float)
        if self.fl == "L2BP":
            # positive-definite as a matrix (bra axes, ket axes)
            nb = cur.ndim // 2
            d = int(np.prod(cur.shape[:nb]))
            return psd_matrix(rng, d, complex if np.iscomplexobj(cur) else float).reshape(cur.shape)
        x = rng.uniform(0.5, 1.5, size=cur.shape)
        return x / x.sum()

    # ---- results ---------------------------------------------------------------
    def dense_messages(self):
        if self.fl == "HV1BP":
            return self.bp.get_messages_dense()
        return self.bp.messages


# --------------------------------------------------------------------------- #


class BPWorld(World):
    PROP = "C14"
    NAME = "bp"
    LEVEL = "fault_enumeration"
    SIM_TIME_UNIT = "BP scheduling quanta (iterate() calls)"
    RUNS = {"quick": 16000, "thorough": 240000}
    WALL_CAP = {"quick": 900, "thorough": 3300}
    RULE = (
        "one run = a seeded random forest (2-8 tensors or site groups, bonds 1-3, "
        "hyper-edges / dangling indices / several components where the flavour "
        "allows) for one of six BP flavours; configuration A = a sequence of "
        "library-scheduled runs with drawn options, B = simulator-scheduled "
        "activations with message faults and a quiesce phase; non-trivial = the "
        "network has >= 3 directed messages and >= 2 ops executed; distinct = "
        "different digest of (knobs, ops, verdicts)"
    )
    COMPONENTS = {
        "real": [
            "message update rules, normalisation, damping, local-convergence bookkeeping (touched / touch_map / key_pairs) of D1BP, HD1BP, HV1BP, L1BP, D2BP, L2BP",
            "BeliefPropagationCommon.run (configuration A and the library-quiesce mode of B)",
            "contract(), combine_local_contractions, contract_hyper_messages, compute_*_marginal*, D2BP.compute_marginal",
            "contract_*bp / run_belief_propagation_* / gauge_d2bp / compress_d2bp / gauge_all_belief_propagation entry points",
            "HV1BP batched updates on the (simulated) thread pool",
        ],
        "stub": [
            "the round loop in configuration B (the simulator decides what is in `touched` before every iterate())",
            "message faults are written into bp.messages between quanta",
            "thread pool -> sim.simpool.SimPool",
        ],
    }
    ASSUMPTIONS = [
        "dense numpy einsum of <= 8 small tensors is the exact reference",
        "signed / complex data only judged when every exact message is well conditioned (|sum m|/||m|| >= 0.05 and |Z| not tiny)",
    ]

    # ------------------------------------------------------------------ knobs
    @staticmethod
    def draw_knobs(S):
        r = S["knobs"]
        fl = pick(r, FLAVOURS)
        config = "B" if r.random() < 0.55 else "A"
        kinds = ["pos"] if config == "B" else ["pos", "pos", "signed", "complex"]
        kn = {
            "flavour": fl,
            "config": config,
            "n": r.randrange(2, 8 if fl not in LAZY else 6),
            # lazy flavours contract whole site groups with all their incoming
            # (possibly double-bond) messages: all-3 bonds there cost minutes in
            # the path optimiser alone, so they mostly get smaller bonds
            "dims": r.choice([[2], [2, 3], [1, 2, 3], [3]]) if fl not in LAZY else r.choice([[2], [1, 2], [2, 2, 2, 3], [2]]),
            "struct_seed": r.randrange(2**31),
            "data_seed": r.randrange(2**31),
            "data_kind": pick(r, kinds),
            "p_component": r.choice([0.0, 0.1, 0.3]),
            "p_dangling": r.choice([0.0, 0.15, 0.4]),
            "p_scalar": r.choice([0.0, 0.0, 0.5]),
            "max_steps": r.choice([3, 5, 8]) if config == "A" else r.choice([6, 10, 16, 24]),
        }
        if config == "B":
            kn["opts"] = {
                "update": r.choice(["sequential", "parallel"]),
                "damping": r.choice([0.0, 0.0, 0.0, 0.3]),
                "init_seed": r.choice([None, r.randrange(2**31)]),
                "order_seed": r.choice([None, r.randrange(2**31)]),
                "smudge": r.choice([0.0, 1e-13]),
                "exponent": r.random() < 0.2,
                "lc": True,
                "pool": r.choice([0, 0, 2, 3, 5]) if fl == "HV1BP" else 0,
            }
            kn["faults"] = sorted(
                f for f in ("corrupt", "loss", "stale", "knob", "cond") if r.random() < 0.5
            )
            kn["fault_rate"] = r.choice([0.05, 0.15, 0.3])
            kn["quiesce"] = r.choice(["rounds", "library"])
            kn["multi_touch"] = r.random() < 0.5
        return kn

    # ------------------------------------------------------------------ setup
    def __init__(self, knobs, stats):
        super().__init__(knobs, stats)
        import quimb as qu
        import quimb.tensor as qtn
        from sim.seams import NameSeam

        self.qu = qu
        self.qtn = qtn
        self.names = NameSeam()
        self.seam = PoolSeam(stats)
        self.net = build_net(knobs)
        self.fl = knobs["flavour"]
        self.ad = None
        self.settled = {}
        self.history = []  # snapshots of (values, settled) per quantum
        self.quanta = 0
        self.nfaults = 0
        self._exact_value = None
        if knobs["config"] == "B":
            self.ad = Adapter(self.net, self.fl, knobs["opts"], self.seam)
            self.settled = {mk: False for mk in self.ad.mk_list}
        self._cond = self._conditioning()

    def close(self):
        self.seam.remove()
        self.names.remove()

    @classmethod
    def warmup(cls):
        from sim import engine

        for s in range(60):
            engine.run_seed(cls, 980_000_000 + s)  # verdicts ignored here

    @staticmethod
    def nontrivial(trace, stats):
        return stats.probes.get("messages", 0) >= 3 and len(trace) >= 2

    def abstract_state(self):
        if self.ad is None:
            return (self.fl, "A", self.quanta)
        return (self.fl, tuple(sorted(k for k, v in self.settled.items() if v)))

    # ----------------------------------------------------------- conditioning
    def exact_value(self):
        if self._exact_value is None:
            self._exact_value = complex(self.net.value())
        return self._exact_value

    def _conditioning(self):
        """For signed / complex data: is the instance inside what BP supports?"""
        if self.knobs["data_kind"] == "pos":
            return True
        z = self.exact_value()
        scale = 1.0
        for t in self.net.tensors:
            scale *= np.linalg.norm(t["data"]) ** (2 if self.net.two_norm else 1)
        if abs(z) < 1e-3 * scale:
            return False
        ad = Adapter(self.net, self.fl, {})
        for mk in ad.mk_list:
            m = ad.exact(mk)
            if self.fl in TWO_NORM:
                continue  # hermitian PSD messages: always fine
            nrm = np.linalg.norm(m)
            if nrm == 0 or abs(m.sum()) / nrm < 0.05:
                return False
        return True

    # ------------------------------------------------------------ generation
    def gen_op(self, S):
        r = S["ops"]
        kn = self.knobs
        fl = self.fl
        if kn["config"] == "A":
            c = r.random()
            if fl == "D2BP" and c < 0.25:
                return {"k": "gauge", "how": pick(r, ["gauge_d2bp", "compress_d2bp", "gauge_all_bp", "gauge_symmetric",
                                                      "gauge_insert"]),
                        "opts": self._draw_opts(r)}
            if fl == "L2BP" and c < 0.25:
                return {"k": "gauge", "how": pick(r, ["compress_l2bp", "compress_l2bp_lazy"]), "opts": self._draw_opts(r)}
            return {"k": "lib", "entry": pick(r, ["class", "class", "func"]),
                    "opts": self._draw_opts(r), "strip": r.random() < 0.4,
                    # a history of further read-outs / normalisers on the same
                    # converged object (indices into the flavour's menu)
                    "readouts": [r.randrange(64) for _ in range(r.choice([0, 0, 2, 3, 5]))],
                    "plan": self._draw_plan(S)}
        # configuration B
        ad = self.ad
        fr = kn["fault_rate"]
        faults = kn["faults"]
        if faults and r.random() < fr and ad.mk_list:
            f = pick(r, faults)
            if f == "corrupt":
                cand = [i for i, mk in enumerate(ad.mk_list) if self.settled[mk]]
                i = pick(r, cand) if (cand and r.random() < 0.7) else r.randrange(len(ad.mk_list))
                return {"k": "corrupt", "key": i, "data_seed": r.randrange(2**31)}
            if f == "stale" and len(self.history) >= 2:
                return {"k": "stale", "key": r.randrange(len(ad.mk_list)),
                        "age": r.randrange(2, min(6, len(self.history)) + 1)}
            if f == "knob":
                if fl != "HV1BP" and r.random() < 0.5:
                    return {"k": "knob", "update": pick(r, ["sequential", "parallel"])}
                return {"k": "knob", "damping": pick(r, [0.0, 0.0, 0.2, 0.4])}
            if f == "cond" and fl == "D2BP" and ad.units:
                return {"k": "cond", "unit": r.randrange(len(ad.units)), "power": pick(r, [0.5, 0.8])}
            if f == "loss":
                return self._draw_quantum(S, loss=True)
        return self._draw_quantum(S)

    def _draw_plan(self, S):
        r = S["sched"]
        return {"mode": pick(r, ["serial", "stall", "merge"]), "eager": r.random() < 0.3,
                "tape": [r.randrange(1 << 16) for _ in range(12)]}

    def _draw_quantum(self, S, loss=False):
        r = S["sched"]
        ad = self.ad
        op = {"k": "quantum", "plan": self._draw_plan(S)}
        if ad.units:
            n = len(ad.units)
            if self.knobs["multi_touch"] and r.random() < 0.5:
                m = r.randrange(1, n + 1)
                op["touch"] = r.sample(range(n), m)
            else:
                # bias: a unit whose inputs are settled but whose outputs are not
                ready = [i for i, u in enumerate(ad.units)
                         if any(not self.settled[mk] and all(self.settled[d] for d in ad.deps[mk])
                                for mk in ad.unit_out[u])]
                if ready and r.random() < 0.5:
                    op["touch"] = [pick(r, ready)]
                else:
                    op["touch"] = [r.randrange(n)]
                if r.random() < 0.15:
                    op["touch"] = op["touch"] * 2  # duplicated activation
        if loss:
            op["lose"] = r.randrange(1 << 16)
        return op

    def _draw_opts(self, r):
        fl = self.fl
        o = {
            "update": r.choice(["sequential", "parallel"]),
            "damping": r.choice([0.0, 0.0, 0.0, 0.2, 0.5]),
            "lc": r.random() < 0.6,
            "init_seed": r.choice([None, r.randrange(2**31)]),
            "order_seed": r.choice([None, r.randrange(2**31)]),
            "contract_every": r.choice([None, None, 1, 3]),
            "normalize": r.choice([None, None, "L1", "L2", "Linf"]),
            "distance": r.choice([None, None, "L1", "L2", "Linf", "L2phased", "cosine"]),
            "smudge": r.choice([0.0, 1e-13]),
            "pool": r.choice([0, 2, 3, 5]) if fl == "HV1BP" else 0,
            "exponent": r.random() < 0.2,
        }
        if self.knobs["data_kind"] == "complex":
            o["normalize"] = None if fl != "HV1BP" else "L2"
            # (the plain norms do not converge for messages whose phase is
            # free; the phase-invariant measures do)
            o["distance"] = (o["distance"] if o["distance"] in ("L2phased", "cosine") else None) if fl != "HV1BP" else "L2"
        if self.knobs["data_kind"] != "pos":
            # damping mixes an old and a new message; with signs / phases the
            # two can cancel to a zero message, which no flavour claims to
            # support: signed and complex data are judged undamped only
            o["damping"] = 0.0
        return o

    # ------------------------------------------------------------- execution
    def apply(self, op):
        k = op["k"]
        if self.knobs["config"] == "A":
            if k == "lib":
                return self._apply_lib(op)
            if k == "gauge":
                return self._apply_gauge(op)
            raise Skip()
        if k == "quantum":
            return self._apply_quantum(op)
        if k == "corrupt":
            return self._apply_corrupt(op)
        if k == "stale":
            return self._apply_stale(op)
        if k == "knob":
            return self._apply_knob(op)
        if k == "cond":
            return self._apply_cond(op)
        raise Skip()

    # .. configuration A ......................................................
    def _tols(self, damping, cosine=False):
        if cosine:
            # sqrt(2 - 2 cos) cannot resolve message changes below ~3e-8, so
            # the run is stopped at 1e-6 and judged accordingly
            return 1e-3 if damping else 1e-4
        return 1e-5 if damping else 1e-8

    def _apply_lib(self, op):
        if not self._cond:
            self.stats.outcome("skipped_ill_conditioned")
            raise Skip()
        o = op["opts"]
        fl = self.fl
        damping = o["damping"]
        cosine = o.get("distance") == "cosine" and fl != "HV1BP"
        tol_run = 1e-6 if cosine else 1e-12
        maxit = 400 if not damping else 4000
        self.seam.sched.begin_call(op["plan"])
        try:
            if op["entry"] == "func" and o.get("init_seed") is None and not o.get("pool") and not cosine:
                val, ad = self._lib_func(o, op["strip"], tol_run, maxit)
            else:
                ad = Adapter(self.net, fl, o, self.seam)
                st, _ = self.call(lambda: ad.bp.run(tol=tol_run, max_iterations=maxit,
                                                    tol_rolling_diff=0.0))
                if st == "rejected":
                    raise Violation("C14/rejected_valid_input", repr(_))
                kw = {"strip_exponent": op["strip"]}
                if fl == "HV1BP":
                    kw["check_zero"] = False
                st, val = self.call(lambda: ad.bp.contract(**kw))
                if st == "rejected":
                    raise Violation("C14/rejected_valid_input", repr(val))
        finally:
            left = self.seam.sched.end_call()
        if left:
            raise Violation("C14/work_after_return", f"{len(left)} pool tasks pending after BP returned")
        if op["strip"]:
            man, exp = val
            val = man * 10.0 ** float(np.real(exp))
        self.stats.probe("lib_runs")
        self.stats.probe("messages", len(ad.mk_list) if ad is not None else 3)
        self.quanta += 1
        tol = self._tols(damping, cosine)
        if cosine:
            self.stats.probe("lib_runs_cosine_distance")
        z = self.exact_value()
        if not abs(complex(val) - z) <= tol * abs(z):
            raise Violation(
                f"C14/value:{fl}",
                f"BP value {val} vs exact {z} (rel {abs(complex(val) - z) / abs(z):.3g}); opts={o}",
            )
        if ad is not None:
            self._check_marginals(ad, tol * 10)
            for mk in ad.mk_list:
                ok, dd = same_direction(ad.get(mk), ad.exact(mk), tol * 100)
                if not ok:
                    raise Violation(f"C14/message:{fl}",
                                    f"after run() reported convergence message {mk} differs from the exact message by {dd:.3g}; opts={o}")
            self.stats.probe("messages_checked_after_run", len(ad.mk_list))
            if self.knobs["data_kind"] == "pos" and fl in ("D1BP", "D2BP") and not damping:
                # the loop / generalised-loop expansions reduce to the BP value
                # on a tree (no loops): region counting must not change it
                for name in (("contract_gloop_expand", "contract_with_loops") if fl == "D1BP" else ("contract_gloop_expand",)):
                    ad2 = Adapter(self.net, fl, o, self.seam)
                    self._must(lambda: ad2.bp.run(tol=tol_run, max_iterations=maxit, tol_rolling_diff=0.0))
                    v2 = self._must(lambda: getattr(ad2.bp, name)())
                    if not abs(complex(v2) - z) <= tol * 10 * abs(z):
                        raise Violation(f"C14/value:{fl}:{name}", f"{name}() = {v2} vs exact {z} on a tree")
                    self.stats.probe("loop_expansion_checks")
            if not bool(ad.bp.converged) and not damping:
                raise Violation(f"C14/not_converged:{fl}",
                                f"run() did not report convergence on a tree after {maxit} iterations")
            if op.get("readouts") and self.knobs["data_kind"] == "pos" and not damping and not cosine:
                self._readout_history(ad, op["readouts"], z, tol * 10)
        self.note("lib", fl, op["entry"], True)

    READOUTS = {
        # value read-outs (must be exact on a tree whatever was called before)
        # and the public normalisers, which must not change any later value
        "D1BP": ["contract", "contract_gloop_expand", "contract_with_loops", "contract_loop_series_expansion",
                 "normalize_message_pairs", "normalize_tensors", "contract_strip"],
        "D2BP": ["contract", "contract_gloop_expand", "contract_loop_series_expansion",
                 "normalize_message_pairs", "normalize_tensors", "contract_strip",
                 # non-inplace by default: they return a regauged copy and
                 # must leave the object they were called on alone
                 "gauge_symmetric", "compress_untruncated", "contract"],
        "HD1BP": ["contract", "normalize_messages", "contract_strip"],
        "HV1BP": ["contract", "contract_dense", "contract_strip"],
        "L1BP": ["contract", "normalize_message_pairs", "contract_strip"],
        "L2BP": ["contract", "normalize_message_pairs", "contract_strip"],
    }

    def _readout_history(self, ad, picks, z, tol):
        fl = self.fl
        menu = self.READOUTS[fl]
        done = []
        for pck in picks:
            name = menu[pck % len(menu)]
            bp = ad.bp
            if name == "contract_strip":
                kw = {"strip_exponent": True}
                if fl == "HV1BP":
                    kw["check_zero"] = False
                st, val = self.call(lambda: bp.contract(**kw))
                if st != "rejected":
                    val = val[0] * 10.0 ** float(np.real(val[1]))
            elif name == "contract" and fl == "HV1BP":
                st, val = self.call(lambda: bp.contract(check_zero=False))
            elif name in ("gauge_symmetric", "compress_untruncated"):
                if name == "gauge_symmetric":
                    st, val = self.call(lambda: bp.gauge_symmetric())
                else:
                    st, val = self.call(lambda: bp.compress(max_bond=None, cutoff=0.0))
                done.append(name)
                if st == "rejected":
                    raise Violation(f"C14/readout_rejected:{fl}", f"{' -> '.join(done)}: {val!r}")
                self.stats.probe("non_inplace_gauge_in_history")
                continue
            else:
                st, val = self.call(lambda: getattr(bp, name)())
            done.append(name)
            if st == "rejected":
                raise Violation(f"C14/readout_rejected:{fl}", f"{' -> '.join(done)}: {val!r}")
            if name.startswith("normalize"):
                continue
            if not abs(complex(val) - z) <= tol * abs(z):
                raise Violation(f"C14/readout_history:{fl}",
                                f"{' -> '.join(done)} = {val} vs exact {z} on a tree "
                                f"(rel {abs(complex(val) - z) / abs(z):.3g})")
            self.stats.probe("readouts_after_history")

    def _lib_func(self, o, strip, tol_run, maxit):
        """Function entry points (they build the BP object themselves)."""
        qbp = self._qbp()
        fl = self.fl
        ad0 = Adapter(self.net, fl, {"order_seed": o.get("order_seed")})
        tn = ad0.tn
        common = dict(max_iterations=maxit, tol=tol_run, damping=o["damping"],
                      strip_exponent=strip)
        if fl == "D1BP":
            f = lambda: qbp.contract_d1bp(tn, update=o["update"], local_convergence=o["lc"],
                                          tol_rolling_diff=0.0, **common)
        elif fl == "HD1BP":
            f = lambda: qbp.contract_hd1bp(tn, update=o["update"], tol_rolling_diff=0.0, **common)
        elif fl == "HV1BP":
            f = lambda: qbp.contract_hv1bp(tn, tol_rolling_diff=0.0, **common)
        elif fl == "L1BP":
            f = lambda: qbp.contract_l1bp(tn, site_tags=ad0.site_tags, update=o["update"],
                                          local_convergence=o["lc"], **common)
        elif fl == "D2BP":
            f = lambda: qbp.contract_d2bp(tn, update=o["update"], local_convergence=o["lc"],
                                          tol_rolling_diff=0.0, **common)
        else:
            f = lambda: qbp.contract_l2bp(tn, site_tags=ad0.site_tags, update=o["update"],
                                          local_convergence=o["lc"], **common)
        st, val = self.call(f)
        if st == "rejected":
            raise Violation("C14/rejected_valid_input", repr(val))
        return val, None

    def _must(self, thunk):
        st, val = self.call(thunk)
        if st == "rejected":
            raise Violation("C14/rejected_valid_input", repr(val))
        return val

    def _qbp(self):
        import quimb.tensor.belief_propagation as qbp

        return qbp

    def _check_marginals(self, ad, tol):
        net = self.net
        fl = self.fl
        qbp = self._qbp()
        allids = list(range(len(net.tensors)))
        if fl in HYPER:
            from quimb.tensor.belief_propagation import bp_common

            msgs = ad.dense_messages()
            btn = ad.bp.tn
            allm = self._must(lambda: bp_common.compute_all_index_marginals_from_messages(btn, msgs))
            for ix in net.ind_tensors:
                ex = normed(net.einsum(allids, [ix]))
                for name, got in (("all", allm[ix]),
                                  ("one", self._must(lambda: bp_common.compute_index_marginal(btn, ix, msgs)))):
                    got = np.asarray(got)
                    if not np.abs(got - ex).max() <= tol * max(1.0, np.abs(ex).max()):
                        raise Violation(f"C14/marginal:index:{fl}",
                                        f"index {ix} ({name}): {got} vs exact {ex}")
                self.stats.probe("marginals_checked")
            for k, t in enumerate(net.tensors):
                ex = normed(net.einsum(allids, list(t["inds"])))
                got = np.asarray(self._must(lambda: bp_common.compute_tensor_marginal(btn, ad.tid[k], msgs)))
                # library axis order = the tensor's own index order in bp.tn
                lib_inds = btn.tensor_map[ad.tid[k]].inds
                perm = [lib_inds.index(ix) for ix in t["inds"]]
                got = got.transpose(perm)
                if not np.abs(got - ex).max() <= tol * max(1.0, np.abs(ex).max()):
                    raise Violation(f"C14/marginal:tensor:{fl}", f"tensor {k}: max diff {np.abs(got - ex).max():.3g}")
                self.stats.probe("marginals_checked")
        elif fl == "D2BP":
            for ix in net.phys_inds():
                rho = net.norm_einsum(allids, [])  # noqa: F841  (norm, for scale)
                # diagonal of the reduced density matrix of the physical index
                labels_out = [ix]
                # keep ix open on ket, and identify bra's ix with it: einsum with
                # the shared (un-renamed) physical label and that label in the output
                ex = np.real(net.norm_einsum(allids, labels_out))
                ex = ex / ex.sum()
                st, got = self.call(lambda: ad.bp.compute_marginal(ix))
                if st == "rejected":
                    raise Violation("C14/rejected_valid_input", repr(got))
                got = np.asarray(got)
                if not np.abs(got - ex).max() <= tol:
                    raise Violation(f"C14/marginal:index:{fl}", f"index {ix}: {got} vs exact {ex}")
                self.stats.probe("marginals_checked")

    def _apply_gauge(self, op):
        if not self._cond:
            raise Skip()
        o = op["opts"]
        qbp = self._qbp()
        how = op["how"]
        ad0 = Adapter(self.net, "L2BP" if how.startswith("compress_l2bp") else "D2BP", {"order_seed": o.get("order_seed")})
        tn = ad0.tn
        outer = sorted(tn.outer_inds())
        before = tn.to_dense(outer) if outer else tn.contract(all)
        maxbond = max(self.net.sizes.values())
        common = dict(max_iterations=200, tol=1e-12, damping=o["damping"], update=o["update"],
                      local_convergence=o["lc"])
        if how == "gauge_d2bp":
            f = lambda: qbp.gauge_d2bp(tn, **common)
        elif how == "compress_d2bp":
            f = lambda: qbp.compress_d2bp(tn, max_bond=maxbond, cutoff=0.0, **common)
        elif how == "gauge_all_bp":
            f = lambda: tn.gauge_all_belief_propagation(**common)
        elif how.startswith("compress_l2bp"):
            f = lambda: qbp.compress_l2bp(tn, max_bond=maxbond ** 3, cutoff=0.0, site_tags=ad0.site_tags,
                                          max_iterations=200, tol=1e-12, damping=o["damping"], update=o["update"],
                                          local_convergence=o["lc"], lazy=how.endswith("lazy"))
        elif how == "gauge_insert":
            def f():
                bp = qbp.D2BP(tn, update=o["update"], damping=o["damping"], local_convergence=o["lc"])
                bp.run(tol=1e-12, max_iterations=200, tol_rolling_diff=0.0)
                t2 = tn.copy()
                # insert the gauges on the outer bonds and take them out again
                with bp.gauge_temp(t2):
                    pass
                return t2
        else:
            def f():
                bp = qbp.D2BP(tn, update=o["update"], damping=o["damping"], local_convergence=o["lc"])
                bp.run(tol=1e-12, max_iterations=200, tol_rolling_diff=0.0)
                return bp.gauge_symmetric()
        st, tn2 = self.call(f)
        if st == "rejected":
            raise Violation("C14/rejected_valid_input", repr(tn2))
        after = tn2.to_dense(outer) if outer else tn2.contract(all)
        scale = max(1e-300, float(np.abs(before).max()))
        d = float(np.abs(np.asarray(after) - np.asarray(before)).max())
        if not d <= 1e-8 * scale:
            raise Violation(f"C14/gauge_changed_state:{how}", f"max|diff|={d:.3g} (scale {scale:.3g})")
        if set(tn2.outer_inds()) != set(outer):
            raise Violation(f"C14/gauge_changed_state:{how}", "outer indices changed")
        self.stats.probe("gauge_checks")
        self.note("gauge", how)

    # .. configuration B ......................................................
    def _snapshot(self):
        ad = self.ad
        self.history.append(({mk: ad.get(mk) for mk in ad.mk_list}, dict(self.settled)))
        if len(self.history) > 8:
            self.history.pop(0)

    def _check_settled(self, where):
        ad = self.ad
        n = 0
        for mk, s in self.settled.items():
            if s:
                ok, d = same_direction(ad.get(mk), ad.exact(mk), SETTLED_TOL)
                n += 1
                if not ok:
                    raise Violation(
                        f"C14/settled_wrong:{self.fl}",
                        f"after {where}: message {mk} was recomputed from exact inputs "
                        f"but differs from the exact message by {d:.3g}",
                    )
        self.stats.probe("settled_checks", n)

    def _apply_quantum(self, op):
        ad = self.ad
        bp = ad.bp
        self._snapshot()
        before_vals, before_settled = self.history[-1]
        damping = bp.damping if not callable(bp.damping) else 1.0
        if ad.units:
            idx = [i % len(ad.units) for i in op.get("touch", [0])]
            units = [ad.units[i] for i in idx]
            # oset semantics: duplicates collapse, first position wins
            seen = []
            for u in units:
                if u not in seen:
                    seen.append(u)
            units = seen
            ad.touch(units)
        else:
            units = None
        self.seam.sched.begin_call(op.get("plan", {"mode": "serial", "tape": [0]}))
        st, res = self.call(lambda: bp.iterate(tol=0.0))
        left = self.seam.sched.end_call()
        if st == "rejected":
            raise Violation("C14/rejected_valid_input", repr(res))
        if left:
            raise Violation("C14/work_after_return", f"{len(left)} pool tasks pending after iterate()")
        self.quanta += 1
        self.stats.sim_time += 1
        self.stats.probe("messages", len(ad.mk_list))
        # model: which messages are settled now
        S = self.settled
        upd = bp.update

        def settle(mk, src):
            v = all(src[d] for d in ad.deps[mk])
            if damping:
                v = v and before_settled[mk]
            return v

        if units is None:
            # whole round.  HD1BP: index phase then tensor phase; HV1BP: tensor
            # phase then index phase.  Each phase reads only the other kind.
            first, second = ("it", "ti") if self.fl == "HD1BP" else ("ti", "it")
            new = dict(S)
            for mk in ad.mk_list:
                if mk[0] == first:
                    new[mk] = settle(mk, S)
            for mk in ad.mk_list:
                if mk[0] == second:
                    new[mk] = settle(mk, new)
            S.update(new)
        elif upd == "parallel":
            new = {}
            for u in units:
                for mk in ad.unit_out[u]:
                    new[mk] = settle(mk, before_settled)
            S.update(new)
        else:
            for u in reversed(units):  # oset.pop() takes from the right
                newu = {mk: settle(mk, S) for mk in ad.unit_out[u]}
                S.update(newu)
        if units is not None and len(units) > 1:
            self.stats.probe("multi_unit_quantum")
        if "lose" in op:
            # message loss: the updates of one fired unit never arrive
            if units:
                u = units[op["lose"] % len(units)]
                lost = ad.unit_out[u]
            else:
                lost = [ad.mk_list[op["lose"] % len(ad.mk_list)]]
            for mk in lost:
                ad.put(mk, before_vals[mk])
                S[mk] = before_settled[mk]
            self.stats.fault("message_loss")
            self.nfaults += 1
        self._check_settled("quantum")
        self.note("q", self.quanta, sum(S.values()))

    def _apply_corrupt(self, op):
        ad = self.ad
        if not ad.mk_list:
            raise Skip()
        mk = ad.mk_list[op["key"] % len(ad.mk_list)]
        if self.settled[mk]:
            self.stats.probe("corrupted_a_settled_message")
        ad.put(mk, ad.random_mailbox(mk, data_rng(op["data_seed"])))
        self.settled[mk] = False
        self.stats.fault("message_corruption")
        self.nfaults += 1
        self.note("corrupt", str(mk))

    def _apply_stale(self, op):
        ad = self.ad
        if len(self.history) < 2 or not ad.mk_list:
            raise Skip()
        age = min(op["age"], len(self.history))
        vals, sett = self.history[-age]
        mk = ad.mk_list[op["key"] % len(ad.mk_list)]
        ad.put(mk, vals[mk])
        self.settled[mk] = sett[mk]
        self.stats.fault("stale_message_delivered")
        self.nfaults += 1
        self.note("stale", str(mk), age)

    def _apply_knob(self, op):
        bp = self.ad.bp
        if "update" in op:
            if self.fl == "HV1BP":
                raise Skip()
            bp.update = op["update"]
        if "damping" in op:
            bp.damping = op["damping"]
        self.stats.fault("knob_change")
        self.note("knob")

    def _apply_cond(self, op):
        """D2BP: change the conditioning power, fire one unit under it, and
        change it back: the conditioned copies made meanwhile must not survive."""
        if self.fl != "D2BP" or not self.ad.units:
            raise Skip()
        ad = self.ad
        bp = ad.bp
        u = ad.units[op["unit"] % len(ad.units)]
        bp.power = op["power"]
        ad.touch([u])
        st, res = self.call(lambda: bp.iterate(tol=0.0))
        if st == "rejected":
            raise Violation("C14/rejected_valid_input", repr(res))
        for mk in ad.unit_out[u]:
            self.settled[mk] = False
        bp.power = 1.0
        self.stats.fault("conditioner_toggle")
        self.nfaults += 1
        self.note("cond", str(u))

    # .. quiesce: faults have stopped ............................................
    def finish(self):
        if self.knobs["config"] != "B":
            return
        ad = self.ad
        bp = ad.bp
        fl = self.fl
        from quimb.utils import oset

        damping = bp.damping if not callable(bp.damping) else 0.5
        lam = self.net.diameter() + 1
        if damping:
            rounds = lam * int(math.ceil(math.log(1e-11) / math.log(damping))) + 5
            tol = 1e-6
        else:
            rounds = lam + 1
            tol = 1e-8
        self.seam.sched.begin_call({"mode": "serial", "tape": [0]})
        if self.knobs["quiesce"] == "library":
            if hasattr(bp, "touched"):
                bp.touched = oset()
            st, res = self.call(lambda: bp.run(tol=1e-13, tol_rolling_diff=0.0,
                                               max_iterations=20 * rounds + 50))
            if st == "rejected":
                raise Violation("C14/rejected_valid_input", repr(res))
            self.stats.probe("quiesce_library")
        else:
            for _ in range(rounds):
                if hasattr(bp, "touched"):
                    bp.touched = oset()
                st, res = self.call(lambda: bp.iterate(tol=0.0))
                if st == "rejected":
                    raise Violation("C14/rejected_valid_input", repr(res))
                self.stats.sim_time += 1
            self.stats.probe("quiesce_rounds", rounds)
        self.seam.sched.end_call()
        # liveness: everything is exact now
        for mk in ad.mk_list:
            ok, d = same_direction(ad.get(mk), ad.exact(mk), tol * 10)
            if not ok:
                raise Violation(
                    f"C14/not_converged_after_quiesce:{fl}",
                    f"message {mk} still off by {d:.3g} after {rounds} fair rounds "
                    f"({self.knobs['quiesce']}) following {self.nfaults} faults",
                )
        kw = {"check_zero": False} if fl == "HV1BP" else {}
        st, val = self.call(lambda: bp.contract(**kw))
        if st == "rejected":
            raise Violation("C14/rejected_valid_input", repr(val))
        z = self.exact_value()
        if not abs(complex(val) - z) <= tol * abs(z):
            raise Violation(f"C14/value:{fl}", f"after quiesce: BP value {val} vs exact {z}")
        self._check_marginals(ad, tol * 10)
        if self.nfaults:
            self.stats.probe("recovered_after_faults")
        self.note("fin", True)

    # ------------------------------------------------------------- shrinking
    @staticmethod
    def simplify_op(op):
        if "plan" in op and (op["plan"].get("mode") != "serial" or any(op["plan"].get("tape", []))):
            yield {**op, "plan": {"mode": "serial", "eager": False, "tape": [0]}}
        if op.get("k") == "quantum" and len(op.get("touch", [])) > 1:
            yield {**op, "touch": op["touch"][:1]}
            yield {**op, "touch": op["touch"][1:]}
        if op.get("k") == "lib":
            o = op["opts"]
            for key, val in (("damping", 0.0), ("init_seed", None), ("order_seed", None),
                             ("contract_every", None), ("normalize", None), ("distance", None),
                             ("lc", True), ("pool", 0), ("smudge", 0.0)):
                if o.get(key) != val:
                    yield {**op, "opts": {**o, key: val}}
            if op.get("strip"):
                yield {**op, "strip": False}

    @staticmethod
    def simplify_knobs(knobs):
        if knobs["n"] > 2:
            yield {**knobs, "n": knobs["n"] - 1}
        if knobs.get("p_component"):
            yield {**knobs, "p_component": 0.0}
        if knobs.get("p_dangling"):
            yield {**knobs, "p_dangling": 0.0}
        if knobs.get("p_scalar"):
            yield {**knobs, "p_scalar": 0.0}
        if knobs.get("data_kind") != "pos":
            yield {**knobs, "data_kind": "pos"}
        if knobs["dims"] != [2]:
            yield {**knobs, "dims": [2]}
        o = knobs.get("opts")
        if o:
            for key, val in (("damping", 0.0), ("init_seed", None), ("order_seed", None),
                             ("smudge", 0.0), ("pool", 0)):
                if o.get(key) != val:
                    yield {**knobs, "opts": {**o, key: val}}
