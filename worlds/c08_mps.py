"""MPSWorld (C08): one matrix product state and one record of where its
orthogonality centre lies, threaded through a seeded history of every
operation that accepts or updates such a record.  After every step the record
is checked against independently computed isometry defects, flagged-isometric
tensors are checked, the dense state is compared with a dense model, and every
canonical-form query is compared with the value defined by the dense state.
"""

import math

import numpy as np

from sim.engine import World, Violation, Skip, HarnessError, data_rng, pick, wchoice, maxdiff
from sim.seams import NameSeam

ISO_TOL = 1e-8


def apply_dense(psi, G, where, dims):
    """Apply operator G (factors ordered as ``where``) to dense psi."""
    L = len(dims)
    k = len(where)
    dg = [dims[w] for w in where]
    G = np.asarray(G).reshape(*dg, *dg)
    t = psi.reshape(dims)
    out = np.tensordot(G, t, axes=(list(range(k, 2 * k)), list(where)))
    rest = [a for a in range(L) if a not in where]
    perm = [0] * L
    for n, w in enumerate(where):
        perm[w] = n
    for n, a in enumerate(rest):
        perm[a] = k + n
    return out.transpose(perm).reshape(-1)


def rdm_dense(psi, where, dims):
    L = len(dims)
    t = psi.reshape(dims)
    rest = [a for a in range(L) if a not in where]
    t = t.transpose(list(where) + rest).reshape(int(np.prod([dims[w] for w in where])), -1)
    return t @ t.conj().T


def rand_unitary(rng, n, real=False):
    A = rng.normal(size=(n, n))
    if not real:
        A = A + 1j * rng.normal(size=(n, n))
    Q, R = np.linalg.qr(A)
    return Q * (np.diag(R) / np.abs(np.diag(R)))


def rand_general(rng, n, real=False):
    A = rng.normal(size=(n, n)) * 0.5 + np.eye(n)
    if not real:
        A = A + 0.5j * rng.normal(size=(n, n))
    return A


class MPSWorld(World):
    PROP = "C08"
    NAME = "mps"
    LEVEL = "exploration"
    SIM_TIME_UNIT = "operations"
    RUNS = {"quick": 16000, "thorough": 600000}
    WALL_CAP = {"quick": 900, "thorough": 3300}
    RULE = (
        "one run = one MPS (L 2-6, site-dependent physical dims 2-3, bond <= 4, "
        "real/complex, optionally unnormalised) and one record object threaded "
        "through up to max_steps record-taking operations (canonicalize / shift / "
        "compress / gates in every MPS mode / swaps with every absorb / sub-MPO / "
        "measure / canonical-form readers / suspended sample generators); "
        "non-trivial = >= 3 ops executed of which >= 1 moved the centre; distinct = "
        "different digest of (knobs, ops, recorded centre after each step)"
    )
    COMPONENTS = {
        "real": [
            "MatrixProductState: canonicalize, shift_orthogonality_center, left/right_canonize(_site), compress(_site), gate_with_auto_swap, gate_nonlocal, gate_with_submpo, gate_split, swap_sites_with_compress, swap_site_to, measure, sample(_configuration), singular/schmidt values, entropy, schmidt_gap, magnetization, partial_trace_to_dense_canonical, local_expectation_canonical, compute_local_expectation, bipartite_schmidt_state, calc_current_orthog_center",
            "tensor_core isometry shortcut for tensors flagged with left_inds",
        ],
        "stub": ["generated index names -> seeded (NameSeam)"],
    }
    ASSUMPTIONS = [
        "dense numpy linear algebra on <= 6 sites is the reference",
        "generic-path gates (contract=True / reduce-split / gate_split) neither read nor write the record: the simulated user resets it to 'calc' after them unless the gate is a single-site unitary",
        "all compressions use cutoff=0 (no truncation requested)",
    ]

    # ------------------------------------------------------------------ knobs
    @staticmethod
    def draw_knobs(S):
        r = S["knobs"]
        L = r.choice([2, 3, 4, 4, 5, 6])
        return {
            "L": L,
            "dims": [r.choice([2, 2, 2, 3]) for _ in range(L)] if r.random() < 0.3 else [2] * L,
            "real": r.random() < 0.3,
            "psi_seed": r.randrange(2**31),
            "scale": r.choice([1.0, 1.0, 1.0, 2.5]),
            "max_steps": r.choice([6, 10, 16, 24]),
            "record_mode": r.choice(["info", "info", "info", "mixed"]),
            "table": r.choice(["gates", "swaps", "readers", "mixed", "mixed"]),
            # a third of the runs start from an MPS given by its site arrays
            # (drawn bond dimensions incl. 1, sites of very different norm)
            # instead of ``from_dense`` of a generic vector
            "bonds": [r.choice([1, 1, 2, 3]) for _ in range(L - 1)] if r.random() < 0.33 else None,
        }

    # ------------------------------------------------------------------ setup
    def __init__(self, knobs, stats):
        super().__init__(knobs, stats)
        import quimb as qu
        import quimb.tensor as qtn

        self.qu = qu
        self.qtn = qtn
        self.names = NameSeam()
        self.dims = list(knobs["dims"])
        self.L = knobs["L"]
        rng = data_rng(knobs["psi_seed"])
        D = int(np.prod(self.dims))
        v = rng.normal(size=D)
        if not knobs["real"]:
            v = v + 1j * rng.normal(size=D)
        v = v / np.linalg.norm(v) * knobs["scale"]
        self.psi = v.astype(float if knobs["real"] else complex)
        bonds = knobs.get("bonds")
        if bonds:
            L = self.L
            arrays = []
            for i in range(L):
                shape = ([] if i == 0 else [bonds[i - 1]]) + ([] if i == L - 1 else [bonds[i]]) + [self.dims[i]]
                a = rng.normal(size=shape)
                if not knobs["real"]:
                    a = a + 1j * rng.normal(size=shape)
                arrays.append(a * float(rng.choice([0.25, 1.0, 1.0, 4.0])))
            # dense vector of the arrays, site 0 most significant
            if L > 1:
                cur = arrays[0].T  # (d0, r0)
                for i in range(1, L):
                    a = arrays[i]
                    if i < L - 1:
                        cur = np.tensordot(cur, a, axes=([-1], [0]))  # (..., r, d) 
                        cur = np.moveaxis(cur, -1, -2)               # (..., d, r)
                    else:
                        cur = np.tensordot(cur, a, axes=([-1], [0]))  # (..., d)
                vec = cur.reshape(-1)
            else:
                vec = arrays[0].reshape(-1)
            nrm = np.linalg.norm(vec)
            arrays[0] = arrays[0] / nrm * knobs["scale"]
            self.psi = (vec / nrm * knobs["scale"]).astype(float if knobs["real"] else complex)
            stats.probe("mps_from_site_arrays")
            if 1 in bonds:
                stats.probe("mps_with_bond_of_size_one")
            st, mps = self.call(lambda: qtn.MatrixProductState([np.array(a) for a in arrays], shape="lrp"))
        else:
            st, mps = self.call(lambda: qtn.MatrixProductState.from_dense(self.psi, dims=self.dims, cutoff=0.0))
        if st == "rejected":
            raise Violation("C08/rejected_valid_input", repr(mps))
        self.mps = mps
        self.info = {"cur_orthog": "calc"}
        self.gens = []  # suspended sample generators: dict(it, psi, left)
        self.moved = 0

    def close(self):
        for g in self.gens:
            try:
                g["it"].close()
            except Exception:  # noqa: BLE001
                pass
        self.names.remove()

    @classmethod
    def warmup(cls):
        from sim import engine

        for s in range(40):
            engine.run_seed(cls, 950_000_000 + s)

    @staticmethod
    def nontrivial(trace, stats):
        return len(trace) >= 3 and stats.probes.get("centre_moved", 0) >= 1

    def abstract_state(self):
        c = self.info.get("cur_orthog")
        return (self.L, tuple(c) if isinstance(c, (tuple, list)) else c, len(self.gens))

    # ------------------------------------------------------------ generation
    TABLES = {
        "gates": dict(canonicalize=3, gate2=8, gate1=3, gate_generic=2, swap=2, swap_to=1, submpo=2,
                      compress=1, reader=3, measure=1, sample=1, lowlevel=1, reset=0.5, normalize=0.5),
        "swaps": dict(canonicalize=3, gate2=2, gate1=1, gate_generic=1, swap=8, swap_to=5, submpo=1,
                      compress=1, reader=4, measure=1, sample=1, lowlevel=1, reset=0.5, normalize=0.5),
        "readers": dict(canonicalize=3, gate2=2, gate1=1, gate_generic=1, swap=2, swap_to=1, submpo=1,
                        compress=2, reader=10, measure=2, sample=3, lowlevel=1, reset=0.5, normalize=0.5),
        "mixed": dict(canonicalize=3, gate2=4, gate1=2, gate_generic=2, swap=4, swap_to=2, submpo=2,
                      compress=2, reader=6, measure=2, sample=2, lowlevel=1, reset=0.5, normalize=0.5),
    }
    READERS = ["singular_values", "schmidt_values", "entropy", "schmidt_gap", "magnetization",
               "ptr_canonical", "local_expectation_canonical", "compute_local_expectation",
               "bipartite_schmidt_state", "sample_configuration", "calc_center", "measure_outcome"]

    def gen_op(self, S):
        r = S["ops"]
        L = self.L
        if self.gens and r.random() < 0.3:
            return {"k": "gen_next", "g": r.randrange(len(self.gens)), "abandon": r.random() < 0.2}
        k = wchoice(r, list(self.TABLES[self.knobs["table"]].items()))
        op = {"k": k, "seed": r.randrange(2**31), "plain": r.random() < 0.25,
              "how": "info"}
        if self.knobs["record_mode"] == "mixed":
            op["how"] = r.choice(["info", "info", "cur_orthog", "omit"])
        if k == "canonicalize":
            if r.random() < 0.5 or L < 2:
                op["where"] = [r.randrange(L)]
            else:
                op["where"] = sorted(r.sample(range(L), 2))
            op["spelling"] = r.choice(["canonicalize", "canonicalize", "shift", "left_right"])
        elif k in ("gate2", "gate_generic"):
            if L < 2:
                return {"k": "reader", "what": "calc_center", "seed": 0, "plain": False, "how": "info"}
            i, j = r.sample(range(L), 2)
            if k == "gate_generic" or r.random() < 0.4:
                i = r.randrange(L - 1)
                j = i + 1
                if r.random() < 0.3:
                    i, j = j, i
            op["where"] = [i, j]
            op["unitary"] = r.random() < 0.5
            op["mode"] = (r.choice(["reduce-split", "gate_split", "True1"]) if k == "gate_generic"
                          else r.choice(["swap+split", "swap+split", "auto-mps", "nonlocal", "gate_with_auto_swap",
                                         "gate_nonlocal", "no_swap_back"]))
        elif k == "gate1":
            op["where"] = [r.randrange(L)]
            op["unitary"] = True
            op["mode"] = r.choice(["True", "auto-mps", "swap+split", "nonlocal"])
        elif k == "swap":
            if L < 2:
                return {"k": "reader", "what": "calc_center", "seed": 0, "plain": False, "how": "info"}
            i, j = r.sample(range(L), 2)
            if r.random() < 0.6:
                i = r.randrange(L - 1)
                j = i + 1
            op["where"] = [i, j]
            op["absorb"] = r.choice(["both", "both", "left", "right", None])
        elif k == "swap_to":
            op["where"] = [r.randrange(L), r.randrange(L)]
            op["absorb"] = r.choice([None, None, "both", "left", "right"])
        elif k == "submpo":
            n = r.choice([1, 2, 2, 3]) if L >= 3 else r.choice([1, 2]) if L >= 2 else 1
            start = r.randrange(L - n + 1)
            op["where"] = list(range(start, start + n))
            op["method"] = r.choice(["direct", "dm", "zipup", "src", "fit"]) if False else "direct"
            op["unitary"] = r.random() < 0.5
        elif k == "compress":
            op["what"] = r.choice(["compress_site", "compress_left", "compress_right", "compress_flat",
                                   "left_compress", "right_compress"])
            op["site"] = r.randrange(L)
        elif k == "reader":
            op["what"] = pick(r, self.READERS)
            op["site"] = r.randrange(L)
            op["where"] = sorted(r.sample(range(L), min(L, r.choice([1, 2, 2]))))
            op["normalized"] = r.random() < 0.7
            # non-default reader arguments
            op["ropts"] = {"direction": r.choice(["Z", "Z", "X", "Y"]),
                           "get": r.choice(["ket", "ket", "rho", "ket-dense", "rho-dense"]),
                           "method": r.choice([None, None, "eig"]),
                           "descending": r.random() < 0.3}
        elif k == "measure":
            op["site"] = r.randrange(L)
            op["remove"] = r.random() < 0.3
            op["outcome"] = r.choice([None, 0, 1])
            op["renorm"] = r.random() < 0.7
        elif k == "sample":
            op["C"] = r.choice([1, 2, 3])
        elif k == "lowlevel":
            op["what"] = r.choice(["left_canonize_site", "right_canonize_site", "left_canonize", "right_canonize"])
            op["site"] = r.randrange(L)
        elif k == "normalize":
            op["site"] = r.randrange(L)
        return op

    # ------------------------------------------------------------- helpers
    def _record_kw(self, op, allow_cur_orthog=False):
        """How the record is handed to this call."""
        how = op.get("how", "info")
        if how == "omit":
            # the user drops their knowledge for this call: the call computes
            # the centre itself, and the user's record is stale afterwards
            self._after = "calc"
            return {}
        if how == "cur_orthog" and allow_cur_orthog:
            c = self.info.get("cur_orthog", "calc")
            self._after = "calc"
            return {"cur_orthog": tuple(c) if isinstance(c, (list, tuple)) else c}
        self._after = None
        return {"info": self.info}

    def _finish_record(self):
        if getattr(self, "_after", None) == "calc":
            self._reset_record()
        self._after = None

    def _reset_record(self):
        # one record object for the whole history: it is updated in place, so
        # that everything it was handed to (suspended samplers) sees it
        self.info.clear()
        self.info["cur_orthog"] = "calc"

    def _adopt(self, new_mps):
        if not isinstance(new_mps, self.qtn.MatrixProductState):
            raise Violation("C08/returned_wrong_type", str(type(new_mps)))
        # the record now follows the returned object.  A sampler that was
        # created on the old object but has not run yet would be started with
        # a record that describes another object - the user's mistake, not
        # the library's: such generators are dropped here.
        for g in [g for g in self.gens if g["psi"] is None]:
            g["it"].close()
            self.gens.remove(g)
            self.stats.probe("unstarted_sampler_dropped_at_fork")
        self.mps = new_mps

    def _must(self, thunk, what):
        st, val = self.call(thunk)
        if st == "rejected":
            raise _Rej(val)
        return val

    # ------------------------------------------------------------- execution
    def apply(self, op):
        k = op["k"]
        fn = getattr(self, "_op_" + k, None)
        if fn is None:
            raise Skip()
        before_centre = self.info.get("cur_orthog")
        psi_before = self.psi.copy()
        info_before = dict(self.info)
        dense_before = np.asarray(self.mps.to_dense()).reshape(-1)
        try:
            fn(op)
        except _Rej as e:
            # deliberate refusal: state and record must be as before
            self.stats.outcome("rejected")
            self.psi = psi_before
            after = np.asarray(self.mps.to_dense()).reshape(-1)
            if maxdiff(after, dense_before) > 1e-9 * max(1.0, np.abs(dense_before).max()):
                raise Violation("C08/state_changed_by_rejected_call", f"{k}: {e.args[0]!r}")
            self._after = None
            self.note("rejected", k)
        self._finish_record()
        if self.info.get("cur_orthog") != before_centre:
            self.moved += 1
            self.stats.probe("centre_moved")
        self.check(op)

    # .. canonicalisation ........................................................
    def _op_canonicalize(self, op):
        mps = self.mps
        where = op["where"]
        w = where[0] if len(where) == 1 else tuple(where)
        sp = op["spelling"]
        if sp == "shift":
            c = self.info.get("cur_orthog")
            if not (isinstance(c, (tuple, list)) and c[0] == c[1]) or len(where) != 1:
                sp = "canonicalize"
            else:
                self._must(lambda: mps.shift_orthogonality_center(c[0], where[0]), "shift")
                self.info["cur_orthog"] = (where[0], where[0])
                return
        if sp == "left_right":
            i, j = where[0], where[-1]
            self._must(lambda: mps.left_canonicalize_(i), "left")
            self._must(lambda: mps.right_canonicalize_(j), "right")
            self.info["cur_orthog"] = (i, j)
            return
        kw = self._record_kw(op, allow_cur_orthog=True)
        if op["plain"]:
            new = self._must(lambda: mps.canonicalize(w, **kw), "canonicalize")
            self._adopt(new)
        else:
            self._must(lambda: mps.canonicalize_(w, **kw), "canonicalize_")

    def _op_lowlevel(self, op):
        mps = self.mps
        L = self.L
        what = op["what"]
        i = op["site"]
        if what == "left_canonize_site":
            if i >= L - 1:
                raise Skip()
            self._must(lambda: mps.left_canonize_site(i), what)
        elif what == "right_canonize_site":
            if i < 1:
                raise Skip()
            self._must(lambda: mps.right_canonize_site(i), what)
        elif what == "left_canonize":
            self._must(lambda: mps.left_canonize(stop=i), what)
        else:
            self._must(lambda: mps.right_canonize(stop=i), what)
        # these take no record: the user's knowledge is void afterwards
        self._reset_record()

    def _op_reset(self, op):
        self._reset_record()

    def _op_normalize(self, op):
        c = self.info.get("cur_orthog")
        if isinstance(c, (tuple, list)):
            site = min(max(op["site"], min(c)), max(c))
        else:
            site = op["site"]
        nrm = self._must(lambda: self.mps.normalize(insert=site), "normalize")
        self.psi = self.psi / np.linalg.norm(self.psi)

    # .. gates ....................................................................
    def _gate(self, op, n):
        rng = data_rng(op["seed"])
        real = self.knobs["real"]
        d = int(np.prod([self.dims[w] for w in op["where"]]))
        return rand_unitary(rng, d, real) if op.get("unitary") else rand_general(rng, d, real)

    def _op_gate1(self, op):
        (i,) = op["where"]
        G = self._gate(op, 1)
        mode = {"True": True}.get(op["mode"], op["mode"])
        kw = self._record_kw(op, allow_cur_orthog=True)
        mps = self.mps
        if op["plain"]:
            new = self._must(lambda: mps.gate(G, i, contract=mode, **kw), "gate1")
            self._adopt(new)
        else:
            self._must(lambda: mps.gate_(G, i, contract=mode, **kw), "gate1")
        self.psi = apply_dense(self.psi, G, [i], self.dims)

    def _op_gate2(self, op):
        i, j = op["where"]
        if self.dims[i] != self.dims[j] and op["mode"] in ("nonlocal", "gate_nonlocal"):
            pass
        G = self._gate(op, 2)
        mode = op["mode"]
        mps = self.mps
        kw = self._record_kw(op, allow_cur_orthog=True)
        co = {"cutoff": 0.0}
        if mode in ("swap+split", "auto-mps", "nonlocal"):
            f = (lambda: mps.gate(G, (i, j), contract=mode, **kw, **co)) if op["plain"] else \
                (lambda: mps.gate_(G, (i, j), contract=mode, **kw, **co))
        elif mode == "gate_with_auto_swap":
            f = lambda: mps.gate_with_auto_swap(G, (i, j), inplace=not op["plain"], **kw, **co)
        elif mode == "no_swap_back":
            f = lambda: mps.gate_with_auto_swap(G, (i, j), inplace=not op["plain"], swap_back=False, **kw, **co)
        else:
            f = lambda: mps.gate_nonlocal(G, (i, j), inplace=not op["plain"], **kw, **co)
        new = self._must(f, mode)
        if op["plain"]:
            self._adopt(new)
        self.psi = apply_dense(self.psi, G, [i, j], self.dims)
        if mode in ("nonlocal", "gate_nonlocal"):
            # gate_nonlocal builds its sub-MPO with MatrixProductOperator.from_dense
            # at that routine's own default cutoff (1e-10 on the discarded
            # weight, i.e. up to ~1e-5 in the operator) whatever cutoff the
            # caller passes for the application itself.  That is a gate-accuracy
            # matter (C06), not a record matter: the model is re-synchronised
            # to the state when the two agree to 1e-4, so that every later
            # step is judged at full precision again.
            got = np.asarray(self.mps.to_dense()).reshape(-1)
            scale = max(1.0, float(np.abs(self.psi).max()))
            if got.shape == self.psi.shape and maxdiff(got, self.psi) <= 1e-4 * scale:
                self.psi = got.astype(self.psi.dtype) if np.iscomplexobj(self.psi) or not np.iscomplexobj(got) else got
        if mode == "no_swap_back" and abs(i - j) > 1:
            # documented: site j stays next to site i, the sites in between shift
            lo, hi = min(i, j), max(i, j)
            order = list(range(self.L))
            moved = order.pop(hi)
            order.insert(lo + 1, moved)
            self._permute_model(order)

    def _permute_model(self, order):
        """New site n holds old site order[n]."""
        t = self.psi.reshape(self.dims).transpose(order)
        self.dims = [self.dims[o] for o in order]
        self.psi = t.reshape(-1)

    def _op_gate_generic(self, op):
        i, j = op["where"]
        mode = op["mode"]
        mps = self.mps
        if mode == "True1":
            # single-site, possibly non-unitary, through the generic path
            G = self._gate({**op, "where": [i]}, 1)
            self._must(lambda: mps.gate_(G, i, contract=True), "gate")
            self.psi = apply_dense(self.psi, G, [i], self.dims)
            if not op.get("unitary"):
                self._reset_record()
            return
        G = self._gate(op, 2)
        if mode == "gate_split":
            if op["plain"]:
                self._adopt(self._must(lambda: mps.gate_split(G, (i, j), cutoff=0.0), mode))
            else:
                self._must(lambda: mps.gate_split_(G, (i, j), cutoff=0.0), mode)
        else:
            self._must(lambda: mps.gate_(G, (i, j), contract="reduce-split", cutoff=0.0), mode)
        self.psi = apply_dense(self.psi, G, [i, j], self.dims)
        # not a record-taking operation
        self._reset_record()

    def _op_submpo(self, op):
        where = op["where"]
        G = self._gate(op, len(where))
        mps = self.mps
        kw = self._record_kw(op, allow_cur_orthog=True)
        dims = [self.dims[w] for w in where]
        st, mpo = self.call(lambda: self.qtn.MatrixProductOperator.from_dense(G, dims=dims, sites=where, L=self.L, cutoff=0.0))
        if st == "rejected":
            raise Skip()
        f = lambda: mps.gate_with_submpo(mpo, where=where, method=op["method"], inplace=not op["plain"],
                                         cutoff=0.0, **kw)
        new = self._must(f, "submpo")
        if op["plain"]:
            self._adopt(new)
        self.psi = apply_dense(self.psi, G, list(where), self.dims)

    # .. swaps ...................................................................
    def _op_swap(self, op):
        i, j = op["where"]
        mps = self.mps
        kw = self._record_kw(op)
        co = {"cutoff": 0.0}
        if op["absorb"] is not None:
            co["absorb"] = op["absorb"]
        new = self._must(lambda: mps.swap_sites_with_compress(i, j, inplace=not op["plain"], **kw, **co), "swap")
        if op["plain"]:
            self._adopt(new)
        order = list(range(self.L))
        order[i], order[j] = order[j], order[i]
        self._permute_model(order)

    def _op_swap_to(self, op):
        i, f = op["where"]
        mps = self.mps
        kw = self._record_kw(op, allow_cur_orthog=True)
        co = {"cutoff": 0.0}
        if op["absorb"] is not None:
            co["absorb"] = op["absorb"]
        new = self._must(lambda: mps.swap_site_to(i, f, inplace=not op["plain"], **kw, **co), "swap_to")
        if op["plain"]:
            self._adopt(new)
        order = list(range(self.L))
        moved = order.pop(i)
        order.insert(f, moved)
        self._permute_model(order)

    # .. compression (cutoff=0) ....................................................
    def _op_compress(self, op):
        mps = self.mps
        what = op["what"]
        i = op["site"]
        if what == "compress_site":
            kw = self._record_kw(op)
            self._must(lambda: mps.compress_site(i, cutoff=0.0, **kw), what)
            return
        if what == "compress_flat":
            self._must(lambda: mps.compress(form="flat", cutoff=0.0), what)
        elif what == "compress_left":
            self._must(lambda: mps.compress(form="left", cutoff=0.0), what)
        elif what == "compress_right":
            self._must(lambda: mps.compress(form="right", cutoff=0.0), what)
        elif what == "left_compress":
            self._must(lambda: mps.left_compress(cutoff=0.0), what)
        else:
            self._must(lambda: mps.right_compress(cutoff=0.0), what)
        self._reset_record()  # these take no record

    # .. measurement / sampling ....................................................
    def _probs_site(self, site):
        rho = rdm_dense(self.psi, [site], self.dims)
        p = np.real(np.diag(rho))
        return p / p.sum()

    def _op_measure(self, op):
        site = op["site"]
        mps = self.mps
        kw = self._record_kw(op)
        outcome = op["outcome"]
        if outcome is not None and outcome >= self.dims[site]:
            outcome = 0
        p = self._probs_site(site)
        if outcome is not None and p[outcome] < 1e-9:
            raise Skip()
        remove = op["remove"] and self.L > 2
        res = self._must(lambda: mps.measure(site, remove=remove, outcome=outcome, renorm=op["renorm"],
                                             seed=op["seed"], inplace=not op["plain"], **kw), "measure")
        got, new = res
        if not (0 <= got < self.dims[site]) or p[got] < 1e-12:
            raise Violation("C08/reader:measure", f"outcome {got} has probability {p[got] if 0 <= got < len(p) else None}")
        if outcome is not None and got != outcome:
            raise Violation("C08/reader:measure", f"asked for outcome {outcome}, got {got}")
        if op["plain"]:
            self._adopt(new)
        # model: project
        t = self.psi.reshape(self.dims)
        idx = [slice(None)] * self.L
        idx[site] = got
        proj = t[tuple(idx)]
        if op["renorm"]:
            proj = proj / math.sqrt(p[got])
        if remove:
            self.dims = self.dims[:site] + self.dims[site + 1:]
            self.L -= 1
            self.psi = proj.reshape(-1)
        else:
            full = np.zeros_like(t)
            full[tuple(idx)] = proj
            self.psi = full.reshape(-1)
        # sampler generators refer to the state they were created on
        self.stats.probe("measurements")

    def _op_sample(self, op):
        kw = self._record_kw(op)
        st, it = self.call(lambda: self.mps.sample(op["C"], seed=op["seed"], **kw))
        if st == "rejected":
            raise _Rej(it)
        # a generator function: nothing runs (and no state is captured) before
        # the first next()
        self.gens.append({"it": it, "psi": None, "dims": None, "left": op["C"], "obj": self.mps})
        if len(self.gens) > 3:
            g = self.gens.pop(0)
            g["it"].close()
        self.note("sample_started")

    def _op_gen_next(self, op):
        if not self.gens:
            raise Skip()
        g = self.gens[op["g"] % len(self.gens)]
        if op.get("abandon"):
            g["it"].close()
            self.gens.remove(g)
            self.stats.fault("generator_abandoned")
            return
        if g["psi"] is None:
            # the generator samples the object it was created on, as that
            # object is when the generator first runs (a plain-spelled call
            # since then returned a new object and left this one alone)
            obj = g.pop("obj")
            g["dims"] = [obj.phys_dim(i) for i in range(obj.L)]
            g["psi"] = np.asarray(obj.to_dense()).reshape(-1)
        st, res = self.call(lambda: next(g["it"], None))
        if st == "rejected":
            raise Violation("C08/rejected_valid_input", repr(res))
        if res is None:
            if g["left"] != 0:
                raise Violation("C08/reader:sample", f"generator ended with {g['left']} samples outstanding")
            self.gens.remove(g)
            return
        g["left"] -= 1
        config, omega = res
        self._check_sample(config, omega, g["psi"], g["dims"], "sample")
        self.stats.probe("samples")

    def _check_sample(self, config, omega, psi, dims, what):
        t = psi.reshape(dims)
        amp = t[tuple(int(c) for c in config)]
        prob = abs(amp) ** 2 / np.linalg.norm(psi) ** 2
        if prob < 1e-12:
            raise Violation(f"C08/reader:{what}", f"sampled configuration {list(config)} has probability {prob:.3g}")
        if not abs(float(omega) - prob) <= 1e-8 * max(prob, 1e-6):
            raise Violation(f"C08/reader:{what}",
                            f"configuration {list(config)}: reported probability {float(omega):.12g}, true {prob:.12g}")

    # .. readers ...................................................................
    def _op_reader(self, op):
        what = op["what"]
        mps = self.mps
        L = self.L
        psi = self.psi
        nrm2 = float(np.linalg.norm(psi) ** 2)
        dims = self.dims
        if what == "calc_center":
            c = self._must(lambda: mps.calc_current_orthog_center(), what)
            self._check_record_value(c, "calc_current_orthog_center()")
            return
        kw = self._record_kw(op)
        site = op["site"] % L
        if what in ("singular_values", "schmidt_values", "entropy", "schmidt_gap"):
            if L < 2:
                raise Skip()
            i = 1 + site % (L - 1)
            M = psi.reshape(int(np.prod(dims[:i])), -1)
            s = np.linalg.svd(M, compute_uv=False)
            ro = op.get("ropts") or {}
            mkw = {"method": ro["method"]} if ro.get("method") else {}
            got = self._must(lambda: getattr(mps, what)(i, **mkw, **kw), what)
            if what == "singular_values":
                # method="eig" takes square roots of eigenvalues: an absolute
                # error of sqrt(eps) * s[0] on small values is its precision
                self._cmp_sorted(np.asarray(got), s, what, (3e-7 if mkw else 1e-8) * max(1.0, s[0]))
            elif what == "schmidt_values":
                self._cmp_sorted(np.asarray(got), s**2, what, 1e-8 * max(1.0, s[0] ** 2))
            elif what == "entropy":
                if abs(nrm2 - 1) > 1e-9:
                    return  # defined for normalised states
                p = s**2
                p = p[p > 1e-300]
                want = float(-(p * np.log2(p)).sum())
                if not abs(float(got) - want) <= 1e-7:
                    raise Violation("C08/reader:entropy", f"bond {i}: {float(got)} vs {want}")
            else:
                if abs(nrm2 - 1) > 1e-9:
                    return
                p = np.concatenate([s**2, [0.0]])
                want = float(p[0] - p[1])
                if not abs(float(got) - want) <= 1e-7:
                    raise Violation("C08/reader:schmidt_gap", f"bond {i}: {float(got)} vs {want}")
        elif what == "magnetization":
            direction = (op.get("ropts") or {}).get("direction", "Z")
            import quimb as qu

            Sop = np.asarray(qu.spin_operator(direction, S=(dims[site] - 1) / 2))
            want = np.vdot(psi, apply_dense(psi, Sop, [site], dims)).real / nrm2
            dkw = {"direction": direction} if direction != "Z" else {}
            got = self._must(lambda: mps.magnetization(site, **dkw, **kw), what)
            if abs(nrm2 - 1) > 1e-9:
                return
            if not abs(complex(got) - want) <= 1e-8:
                raise Violation("C08/reader:magnetization", f"site {site}: {got} vs {want}")
        elif what == "ptr_canonical":
            where = [w % L for w in op["where"]]
            where = sorted(set(where))
            if (op.get("ropts") or {}).get("descending"):
                where = where[::-1]  # subsystems of the result follow ``where``
            rho = rdm_dense(psi, where, dims)
            if op["normalized"]:
                rho = rho / np.trace(rho)
            got = self._must(lambda: mps.partial_trace_to_dense_canonical(tuple(where), normalized=op["normalized"], **kw), what)
            if not maxdiff(np.asarray(got), rho) <= 1e-8 * max(1.0, nrm2):
                raise Violation("C08/reader:partial_trace_to_dense_canonical",
                                f"sites {where}: max|diff|={maxdiff(np.asarray(got), rho):.3g}")
        elif what in ("local_expectation_canonical", "compute_local_expectation"):
            where = sorted(set(w % L for w in op["where"]))
            if (op.get("ropts") or {}).get("descending"):
                where = where[::-1]  # the k-th factor of G acts on where[k]
            d = int(np.prod([dims[w] for w in where]))
            G = rand_general(data_rng(op["seed"]), d, self.knobs["real"])
            want = np.vdot(psi, apply_dense(psi, G, where, dims))
            if op["normalized"]:
                want = want / nrm2
            if what == "local_expectation_canonical":
                got = self._must(lambda: mps.local_expectation_canonical(G, tuple(where), normalized=op["normalized"], **kw), what)
            else:
                terms = {tuple(where): G}
                got = self._must(lambda: mps.compute_local_expectation(terms, normalized=op["normalized"],
                                                                       method="canonical", **kw), what)
            if not abs(complex(got) - want) <= 1e-8 * max(1.0, abs(want), nrm2):
                raise Violation(f"C08/reader:{what}", f"sites {where}: {got} vs {want}")
        elif what == "bipartite_schmidt_state":
            if L < 2:
                raise Skip()
            sz_a = 1 + site % (L - 1)
            form = (op.get("ropts") or {}).get("get", "ket")
            got = self._must(lambda: mps.bipartite_schmidt_state(sz_a, get=form, **kw), what)
            M = psi.reshape(int(np.prod(dims[:sz_a])), -1)
            s = np.linalg.svd(M, compute_uv=False)
            if form.startswith("rho"):
                # |s><s| over (kA kB) x (bA bB): compare with the outer product
                if form == "rho":
                    R = np.asarray(got.to_dense(("kA", "kB"), ("bA", "bB")))
                else:
                    R = np.asarray(got)
                k = int(round(math.sqrt(R.shape[0])))
                if R.shape[0] != R.shape[1] or k * k != R.shape[0]:
                    raise Violation("C08/reader:bipartite_schmidt_state", f"get={form}: shape {R.shape}")
                ev = np.linalg.eigvalsh((R + R.conj().T) / 2)
                top = float(ev[-1])
                if abs(top - float((s**2).sum())) > 1e-8 * max(1.0, float((s**2).sum())) or (len(ev) > 1 and abs(ev[-2]) > 1e-8 * max(1.0, top)):
                    raise Violation("C08/reader:bipartite_schmidt_state",
                                    f"get={form}: not the rank-one projector on the Schmidt vector (top eigenvalues {ev[-2:]}, |s|^2={float((s**2).sum())})")
                # ... whose diagonal in the (A, B) product basis holds the s_i^2
                self._cmp_sorted(np.abs(np.diag(R.reshape(k, k, k, k)[np.arange(k), np.arange(k)][:, np.arange(k), np.arange(k)])),
                                 s**2, what, 1e-8 * max(1.0, s[0] ** 2))
                self.stats.probe("reader:bipartite_schmidt_state:" + form)
                self.stats.probe("reader:" + what)
                return
            g = np.asarray(got.data if hasattr(got, "inds") else got).reshape(-1)
            # a state on two effective sites holding the Schmidt spectrum
            if abs(np.linalg.norm(g) - np.linalg.norm(s)) > 1e-8 * max(1.0, np.linalg.norm(s)):
                raise Violation("C08/reader:bipartite_schmidt_state", f"norm {np.linalg.norm(g)} vs {np.linalg.norm(s)}")
            k = int(round(math.sqrt(g.size)))
            if k * k == g.size:
                sg = np.linalg.svd(g.reshape(k, k), compute_uv=False)
                self._cmp_sorted(sg, s, what, 1e-8 * max(1.0, s[0]))
        elif what == "sample_configuration":
            res = self._must(lambda: mps.sample_configuration(seed=op["seed"], **kw), what)
            config, omega = res
            self._check_sample(config, omega, psi, dims, "sample_configuration")
        elif what == "measure_outcome":
            got = self._must(lambda: mps.measure(site, get="outcome", seed=op["seed"], **kw), what)
            p = self._probs_site(site)
            if not (0 <= got < len(p)) or p[got] < 1e-12:
                raise Violation("C08/reader:measure", f"outcome {got} has zero probability")
        self.stats.probe("reader:" + what)

    def _cmp_sorted(self, got, want, what, tol):
        got = np.sort(np.abs(np.asarray(got).reshape(-1)))[::-1]
        want = np.sort(np.abs(want))[::-1]
        n = max(len(got), len(want))
        g = np.zeros(n)
        w = np.zeros(n)
        g[: len(got)] = got
        w[: len(want)] = want
        if not np.abs(g - w).max() <= tol:
            raise Violation(f"C08/reader:{what}", f"{g[:4]} vs {w[:4]} (max diff {np.abs(g - w).max():.3g})")

    # ------------------------------------------------------------- invariants
    def _site_defects(self, mps):
        """(left defect, right defect) per site, from the raw arrays."""
        L = mps.L
        out = []
        for i in range(L):
            t = mps[i]
            lb = mps.bond(i - 1, i) if i > 0 else None
            rb = mps.bond(i, i + 1) if i < L - 1 else None
            phys = [ix for ix in t.inds if ix not in (lb, rb)]
            order = ([lb] if lb else []) + phys + ([rb] if rb else [])
            a = np.asarray(t.transpose(*order).data) if len(order) > 1 else np.asarray(t.data)
            dl = t.ind_size(lb) if lb else 1
            dr = t.ind_size(rb) if rb else 1
            a = a.reshape(dl, -1, dr)
            ml = a.reshape(-1, dr)
            mr = a.reshape(dl, -1)
            left = float(np.abs(ml.conj().T @ ml - np.eye(dr)).max())
            right = float(np.abs(mr @ mr.conj().T - np.eye(dl)).max())
            out.append((left, right))
        return out

    def _check_record_value(self, c, where):
        if c is None or c == "calc":
            return
        if isinstance(c, (int, np.integer)):
            cmin = cmax = int(c)
        else:
            cmin, cmax = min(c), max(c)
        defects = self._site_defects(self.mps)
        tol = ISO_TOL * max(1, self.L)
        for i, (l, r) in enumerate(defects):
            if i < cmin and l > tol:
                raise Violation(
                    "C08/record:" + where.split("(")[0],
                    f"after {where}: record {c} says site {i} is a left isometry, defect {l:.3g}",
                )
            if i > cmax and r > tol:
                raise Violation(
                    "C08/record:" + where.split("(")[0],
                    f"after {where}: record {c} says site {i} is a right isometry, defect {r:.3g}",
                )
        self.stats.probe("record_checks")

    def check(self, op):
        mps = self.mps
        what = op["k"] + (":" + str(op.get("what") or op.get("mode") or op.get("absorb") or "") if op["k"] in
                          ("reader", "gate2", "swap", "swap_to", "compress") else "")
        if mps.L != self.L:
            raise Violation("C08/state", f"after {what}: MPS has {mps.L} sites, model {self.L}")
        # (iii) dense state
        got = np.asarray(mps.to_dense()).reshape(-1)
        scale = max(1.0, float(np.abs(self.psi).max()))
        if got.shape != self.psi.shape or not maxdiff(got, self.psi) <= 1e-8 * scale:
            raise Violation("C08/state", f"after {what}: dense state differs from the model by "
                            f"{maxdiff(got, self.psi) if got.shape == self.psi.shape else 'shape'}")
        # (i) record soundness
        c = self.info.get("cur_orthog")
        if isinstance(c, list):
            c = tuple(c)
        self._check_record_value(c, what)
        # (ii) flagged isometries
        for t in mps:
            li = t.left_inds
            if li:
                rest = [ix for ix in t.inds if ix not in li]
                a = np.asarray(t.transpose(*li, *rest).data)
                dl = int(np.prod([t.ind_size(ix) for ix in li]))
                m = a.reshape(dl, -1)
                d = float(np.abs(m.conj().T @ m - np.eye(m.shape[1])).max())
                if d > ISO_TOL * 10:
                    raise Violation("C08/left_inds", f"after {what}: tensor flagged isometric from {li} has defect {d:.3g}")
        self.note(op["k"], str(c))

    # ------------------------------------------------------------- shrinking
    @staticmethod
    def simplify_op(op):
        if op.get("plain"):
            yield {**op, "plain": False}
        if op.get("how") not in (None, "info"):
            yield {**op, "how": "info"}
        if op.get("unitary") is False:
            yield {**op, "unitary": True}

    @staticmethod
    def simplify_knobs(knobs):
        if knobs["L"] > 2:
            yield {**knobs, "L": knobs["L"] - 1, "dims": knobs["dims"][:-1]}
        if any(d != 2 for d in knobs["dims"]):
            yield {**knobs, "dims": [2] * knobs["L"]}
        if knobs.get("scale") != 1.0:
            yield {**knobs, "scale": 1.0}
        if not knobs["real"]:
            yield {**knobs, "real": True}


class _Rej(Exception):
    pass
