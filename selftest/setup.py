#!/venv/bin/python
"""MANIFEST.setup_cmd: offline, builds nothing but scratch directories and
verifies the interpreter has what the checks need."""
import os, sys
HERE = os.path.dirname(os.path.dirname(os.path.abspath(__file__)))
os.makedirs(os.path.join(HERE, ".cache", "numba"), exist_ok=True)
os.makedirs(os.path.join(HERE, "evidence"), exist_ok=True)
os.makedirs(os.path.join(HERE, "replays", "found"), exist_ok=True)
import numpy, scipy, numba, cotengra  # noqa
import quimb  # noqa
assert quimb.__file__.startswith("/repo/") or os.environ.get("VERIF_REPO_COPY"), quimb.__file__
print("setup ok: quimb from", quimb.__file__)
