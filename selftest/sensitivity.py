#!/venv/bin/python
"""Sensitivity self-test: deliberate breaks of quimb, applied one at a time to
a scratch worktree of /repo's HEAD under /tmp (reverted with git checkout after
each, the worktree removed at the end); the check imports quimb from that
worktree through PYTHONPATH, so /repo itself is never touched.  Each mutant must
make the corresponding check exit 1 within its quick budget.

    selftest/sensitivity.py [PROP ...] [--only NAME] [--runs N]

The mutants are small, compile, and are of the kind the existing test-suite
does not notice.  Results are printed as a table; DESIGN.md quotes it.
"""
import argparse
import os
import re
import subprocess
import sys
import time

HERE = os.path.dirname(os.path.dirname(os.path.abspath(__file__)))
sys.path.insert(0, HERE)
REPO = "/tmp/wt_mutants_%d" % os.getpid()


def load_mutants():
    from selftest.mutants import MUTANTS

    return MUTANTS


def repo_clean():
    out = subprocess.run(["git", "-C", REPO, "status", "--porcelain", "--untracked-files=no"],
                         capture_output=True, text=True).stdout
    return out.strip() == ""


def main():
    ap = argparse.ArgumentParser()
    ap.add_argument("props", nargs="*")
    ap.add_argument("--only", default=None)
    ap.add_argument("--runs", type=int, default=None)
    ap.add_argument("--tier", default="quick")
    args = ap.parse_args()
    subprocess.run(["git", "-C", "/repo", "worktree", "add", "-q", "--detach", REPO, "HEAD"], check=True)
    try:
        return _main(args)
    finally:
        subprocess.run(["git", "-C", "/repo", "worktree", "remove", "--force", REPO])


def _main(args):
    rows = []
    for m in load_mutants():
        if args.props and m["prop"] not in args.props:
            continue
        if args.only and args.only not in m["name"]:
            continue
        path = os.path.join(REPO, m["file"])
        src = open(path).read()
        n = src.count(m["old"])
        if n != m.get("count", 1):
            rows.append((m["prop"], m["name"], "SKIP", f"pattern occurs {n}x", 0))
            continue
        try:
            open(path, "w").write(src.replace(m["old"], m["new"]))
            t0 = time.time()
            cmd = [os.path.join(HERE, "check"), m["prop"], "--tier", args.tier,
                   "--no-evidence"]
            if args.runs:
                cmd += ["--runs", str(args.runs)]
            env = dict(os.environ)
            env["VERIF_SEED"] = env.get("VERIF_SEED", "3")
            env["PYTHONPATH"] = REPO
            env["VERIF_REPO_COPY"] = "1"
            p = subprocess.run(cmd, capture_output=True, text=True, cwd=HERE, env=env)
            dt = time.time() - t0
            classes = re.findall(r"seed (-?\d+): (\S+) at step (\d+) after shrink \((\d+) ops\)", p.stdout)
            nv = len(re.findall(r"^VIOLATION ", p.stdout, flags=re.M))
            info = "; ".join(f"{c} [{o} ops]" for _, c, _, o in classes[:3])
            if p.returncode == 1 and nv:
                rows.append((m["prop"], m["name"], "CAUGHT", info, dt))
            elif p.returncode == 0:
                rows.append((m["prop"], m["name"], "MISSED", "", dt))
            else:
                tail = (p.stdout + p.stderr)[-600:].replace("\n", " | ")
                rows.append((m["prop"], m["name"], f"EXIT{p.returncode}", tail, dt))
        finally:
            subprocess.run(["git", "-C", REPO, "checkout", "--", m["file"]], check=True)
        r = rows[-1]
        print(f"{r[0]:4} {r[1]:42} {r[2]:7} {r[4]:6.1f}s  {r[3][:200]}", flush=True)
    assert repo_clean()
    caught = sum(1 for r in rows if r[2] == "CAUGHT")
    print(f"\n{caught}/{len(rows)} mutants caught")
    return 0 if caught == len(rows) else 1


if __name__ == "__main__":
    sys.exit(main())
