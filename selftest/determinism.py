#!/venv/bin/python
"""Determinism self-test: the same seeds must give the same digests (op trace,
all seam decisions, outcome classes, discrete observations) in
  A: one process, ascending order
  B: the same process order reversed (position in a worker's queue differs)
  C: a fresh interpreter under a different PYTHONHASHSEED
  D: 16 forked workers
Usage: selftest/determinism.py <PROP> [nseeds] [start]
Exit 0 when all agree, 1 otherwise.
"""
import json, os, subprocess, sys

HERE = os.path.dirname(os.path.dirname(os.path.abspath(__file__)))


def digests(prop, start, count, extra=(), env_extra=None):
    env = dict(os.environ)
    env.pop("_VERIF_REEXEC", None)
    env.pop("PYTHONHASHSEED", None)
    if env_extra:
        env.update(env_extra)
    p = subprocess.run(
        [os.path.join(HERE, "check"), prop, "--digests", str(start), str(count), *extra],
        capture_output=True, text=True, env=env, cwd=HERE)
    for line in p.stdout.splitlines():
        if line.startswith("DIGESTS "):
            return json.loads(line[8:])
    raise SystemExit(f"no digests from run: {p.stdout[-2000:]} {p.stderr[-2000:]}")


def main():
    prop = sys.argv[1]
    n = int(sys.argv[2]) if len(sys.argv) > 2 else 200
    start = int(sys.argv[3]) if len(sys.argv) > 3 else 7_000_000
    runs = {
        "A": digests(prop, start, n),
        "B": digests(prop, start, n, ["--reverse"]),
        "C": digests(prop, start, n, [], {"VERIF_HASHSEED": "1"}),
        "D": digests(prop, start, n, ["--workers", "16"]),
    }
    bad = 0
    errs = 0
    for s in runs["A"]:
        vals = {k: tuple(v[s][:2]) for k, v in runs.items()}
        if len(set(vals.values())) != 1:
            bad += 1
            if bad <= 10:
                print(f"DIVERGENCE {prop} seed={s}: {vals}")
        if any(v[s][2] for v in runs.values()):
            errs += 1
            if errs <= 5:
                print(f"ERROR {prop} seed={s}: {[v[s][2] for v in runs.values()]}")
    nv = sum(1 for s in runs["A"] if runs["A"][s][1])
    print(f"determinism {prop}: {n} seeds x 4 configurations, {bad} divergent, "
          f"{errs} with harness errors, {nv} seeds ending in a violation")
    return 1 if (bad or errs) else 0


if __name__ == "__main__":
    sys.exit(main())
