"""Seam S7: asynchronous interruption (Ctrl-C / MemoryError in a notebook is the
normal way a long query ends).

``run_interrupted(thunk, k)`` runs ``thunk`` under a ``sys.settrace`` tracer
restricted to frames whose file lies under /repo/quimb and raises
``SimInterrupt`` at the k-th 'line' event.  The exception surfaces at that
line; tracing is removed before it propagates.
"""

import sys

from .engine import REPO_PREFIX


class SimInterrupt(BaseException):
    pass


def run_interrupted(thunk, k):
    """-> ("done", value, nlines) or ("interrupted", None, k)."""
    count = [0]

    def local(frame, event, arg):
        if event == "line":
            count[0] += 1
            if count[0] == k:
                sys.settrace(None)
                raise SimInterrupt()
        return local

    def tracer(frame, event, arg):
        if event == "call" and frame.f_code.co_filename.startswith(REPO_PREFIX):
            return local
        return None

    old = sys.gettrace()
    sys.settrace(tracer)
    try:
        val = thunk()
        return "done", val, count[0]
    except SimInterrupt:
        return "interrupted", None, k
    finally:
        sys.settrace(old)


def count_lines(thunk):
    st, val, n = run_interrupted(thunk, -1)
    return val, n
