"""Seam S1: a simulated executor behind quimb's real ``CacheThreadPool``.

No real threads.  Tasks are queued in submission order; a recorded decision
tape decides, at every point where the caller blocks (``wait`` / ``result`` /
iteration over ``map`` / ``shutdown``) and optionally at submit time, which
queued task completes next.  A pool of capacity ``c`` can only have the first
``c`` unfinished tasks (FIFO) in flight, so the choice is made among those —
every order produced is one a real ``ThreadPoolExecutor(c)`` can produce with
suitably slow workers.

Plans (recorded in the op):
  serial   complete tasks one at a time in tape order
  stall    one tape-chosen task is held back until no other can run
  merge    a tape-chosen group is executed "simultaneously": each member runs
           from the same snapshot of all reachable arrays, its write set is
           measured, and the write sets are committed in tape order
"""

import collections
from concurrent.futures import ALL_COMPLETED

import numpy as np

from .engine import HarnessError

DoneAndNotDone = collections.namedtuple("DoneAndNotDoneFutures", "done not_done")

_POISON_BYTE = 0xA7


class SimFuture:
    def __init__(self, sched, pool, fn, args, kwargs, idx):
        self.sched = sched
        self.pool = pool
        self.fn = fn
        self.args = args
        self.kwargs = kwargs
        self.idx = idx
        self._done = False
        self._result = None
        self._exc = None
        self._callbacks = []

    # executor-future interface used by quimb / concurrent.futures users
    def done(self):
        return self._done

    def running(self):
        return False

    def cancelled(self):
        return False

    def cancel(self):
        return False

    def result(self, timeout=None):
        self.sched.drive_until([self], "result")
        if self._exc is not None:
            raise self._exc
        return self._result

    def exception(self, timeout=None):
        self.sched.drive_until([self], "exception")
        return self._exc

    def add_done_callback(self, fn):
        if self._done:
            fn(self)
        else:
            self._callbacks.append(fn)

    # simulator side
    def _run(self):
        if self._done:
            raise HarnessError("task run twice")
        try:
            self._result = self.fn(*self.args, **self.kwargs)
        except BaseException as e:  # noqa: BLE001  stored like a real future
            if isinstance(e, (KeyboardInterrupt, SystemExit)):
                raise
            from .engine import RunTimeout

            if isinstance(e, RunTimeout):
                raise
            self._exc = e
            self.sched.task_exceptions.append(e)
        self._done = True
        for cb in self._callbacks:
            cb(self)


class SimPool:
    def __init__(self, sched, max_workers):
        self.sched = sched
        self._max_workers = int(max_workers)
        self._shutdown = False
        self.queue = []  # unfinished futures, FIFO
        sched.pools.append(self)
        sched.stats.probe("pool_created")

    def submit(self, fn, /, *args, **kwargs):
        if self._shutdown:
            raise RuntimeError("cannot schedule new futures after shutdown")
        f = SimFuture(self.sched, self, fn, args, kwargs, self.sched.next_idx())
        self.queue.append(f)
        self.sched.on_submit(f)
        return f

    def map(self, fn, *iterables, timeout=None, chunksize=1):
        # same contract as Executor.map: everything is submitted now, results
        # are produced lazily in submission order
        fs = [self.submit(fn, *a) for a in zip(*iterables)]

        def it():
            for f in fs:
                yield f.result()

        return it()

    def shutdown(self, wait=True, cancel_futures=False):
        self._shutdown = True
        if self.queue:
            self.sched.stats.fault("pool_shutdown_with_pending")
        if wait:
            self.sched.drive_until(list(self.queue), "shutdown")

    def __enter__(self):
        return self

    def __exit__(self, *a):
        self.shutdown()


class Sched:
    """Owns every simulated pool of one world."""

    def __init__(self, stats):
        self.stats = stats
        self.pools = []
        self._idx = 0
        self.task_exceptions = []
        self.decisions = []  # log of decisions of the current call
        self.set_plan({"mode": "serial", "tape": [0]})
        self.in_call = False
        self.inputs = []
        self.poison = False
        self._poisoned = False
        self.write_sets = []  # (task idx, {array key: flat index array})
        self.overlap = None
        self.ntasks_call = 0
        self.max_pending = 0
        self._driving = False

    # ------------------------------------------------------------------ plan
    def set_plan(self, plan):
        self.plan = plan
        self.tape = list(plan.get("tape") or [0])
        self.pos = 0
        self.mode = plan.get("mode", "serial")
        self.eager = bool(plan.get("eager", False))
        self._stalled = None

    def choose(self, n):
        v = self.tape[self.pos % len(self.tape)]
        self.pos += 1
        return v % n

    def next_idx(self):
        self._idx += 1
        return self._idx

    # ------------------------------------------------------------- call frame
    def begin_call(self, plan, inputs=(), poison=False):
        self.set_plan(plan)
        self.in_call = True
        self.inputs = [a for a in inputs if isinstance(a, np.ndarray)]
        self.poison = poison
        self._poisoned = False
        self.decisions = []
        self.task_exceptions = []
        self.write_sets = []
        self.overlap = None
        self.ntasks_call = 0
        self.max_pending = 0

    def end_call(self):
        """-> list of futures still unfinished when the routine returned."""
        self.in_call = False
        left = [f for p in self.pools for f in p.queue]
        return left

    def run_leftovers(self):
        left = [f for p in self.pools for f in p.queue]
        for f in left:
            self._complete(f)
        return len(left)

    # --------------------------------------------------------------- running
    def _window(self):
        """Tasks that a real pool could have in flight now."""
        w = []
        for p in self.pools:
            w.extend(p.queue[: p._max_workers])
        return w

    def _complete(self, f):
        f._run()
        f.pool.queue.remove(f)
        self.decisions.append(f.idx)
        self.stats.sim_time += 1

    def on_submit(self, f):
        self.ntasks_call += 1
        npend = sum(len(p.queue) for p in self.pools)
        self.max_pending = max(self.max_pending, npend)
        if self.poison and not self._poisoned:
            self._poison_fresh(f)
        if self.eager and not self._driving:
            # a real worker may start (and finish) a task before the caller
            # submits the next one
            if self.choose(3) == 0:
                w = self._window()
                g = w[self.choose(len(w))]
                self.stats.fault("ran_at_submit")
                self._complete(g)

    def drive_until(self, futs, why):
        if self._driving:
            # a task blocked on another future (nested use): run serially
            for f in futs:
                if not f._done:
                    self._complete(f)
            return
        self._driving = True
        try:
            while any(not f._done for f in futs):
                w = self._window()
                if not w:
                    raise HarnessError("deadlock: future pending but nothing runnable")
                if self.mode == "merge" and len(w) >= 2:
                    self._merge_group(w)
                    continue
                if self.mode == "stall":
                    if self._stalled is None or self._stalled._done:
                        self._stalled = w[self.choose(len(w))]
                        self.stats.fault("stalled_worker")
                    others = [g for g in w if g is not self._stalled]
                    if others:
                        w = others
                    else:
                        self.stats.probe("stalled_ran_last")
                g = w[self.choose(len(w))]
                if g is not w[0]:
                    self.stats.fault("out_of_order_completion")
                self._complete(g)
        finally:
            self._driving = False

    # ------------------------------------------------- poison / write sets
    def _arrays_of(self, futs):
        seen = {}
        def visit(x):
            if isinstance(x, np.ndarray):
                if x.flags.writeable and x.dtype != object and x.size:
                    seen.setdefault(id(x), x)
            elif isinstance(x, (tuple, list)):
                for y in x:
                    visit(y)
            elif isinstance(x, dict):
                for y in x.values():
                    visit(y)
        for f in futs:
            visit(f.args)
            visit(f.kwargs)
        return list(seen.values())

    def _is_input(self, a):
        return any(np.shares_memory(a, b) for b in self.inputs)

    def _poison_fresh(self, f):
        """First submit of a call: arrays that the routine allocated itself
        with ``np.empty`` are filled with a poison pattern so an element no
        task writes is recognisable (fresh memory often still holds the
        previous, correct, result)."""
        self._poisoned = True
        for a in self._arrays_of([f]):
            if not self._is_input(a):
                a[...] = np.frombuffer(
                    bytes([_POISON_BYTE]) * a.dtype.itemsize, dtype=a.dtype
                )[0]
                self.stats.probe("poisoned_output")

    def _merge_group(self, w):
        gsize = 2 + self.choose(len(w) - 1)
        group = []
        pool_w = list(w)
        for _ in range(gsize):
            group.append(pool_w.pop(self.choose(len(pool_w))))
        arrays = self._arrays_of(group)
        snaps = [a.copy() for a in arrays]
        writes = []  # per task: list of (array index, flat idx, values)
        for f in group:
            for a, s in zip(arrays, snaps):
                a[...] = s
            f._run()
            f.pool.queue.remove(f)
            self.decisions.append(("m", f.idx))
            ws = []
            for k, (a, s) in enumerate(zip(arrays, snaps)):
                av = np.ascontiguousarray(a).view(np.uint8).reshape(a.size, -1)
                sv = np.ascontiguousarray(s).view(np.uint8).reshape(s.size, -1)
                changed = np.flatnonzero((av != sv).any(axis=1))
                if changed.size:
                    ws.append((k, changed, a[np.unravel_index(changed, a.shape)].copy()))
            writes.append(ws)
        # restore and commit in tape order
        for a, s in zip(arrays, snaps):
            a[...] = s
        order = list(range(len(group)))
        commit = []
        while order:
            commit.append(order.pop(self.choose(len(order))))
        owner = {}
        for t in commit:
            for k, idx, vals in writes[t]:
                arrays[k][np.unravel_index(idx, arrays[k].shape)] = vals
                o = owner.setdefault(k, {})
                for i, v in zip(idx.tolist(), vals.tolist()):
                    if i in o and o[i][0] != t:
                        same = o[i][1] == v or (v != v and o[i][1] != o[i][1])
                        self.stats.probe("write_overlap_same_value" if same
                                         else "write_overlap_diff_value")
                        if not same and self.overlap is None:
                            self.overlap = (group[o[i][0]].idx, group[t].idx, k, i)
                    o[i] = (t, v)
        self.write_sets.extend(
            (f.idx, sum(len(i) for _, i, _ in ws)) for f, ws in zip(group, writes)
        )
        self.stats.fault("concurrent_merge")
        self.stats.sim_time += len(group)


def sim_wait(fs, timeout=None, return_when=ALL_COMPLETED):
    """Replacement for ``concurrent.futures.wait`` (module attribute rebound
    by the world for the duration of a run)."""
    fs = list(fs)  # consuming a generator submits the tasks, as the real one
    if fs:
        sched = fs[0].sched
        sched.drive_until(fs, "wait")
    return DoneAndNotDone(set(fs), set())


class PoolSeam:
    """Installs / removes the seam around quimb's pool cache."""

    def __init__(self, stats):
        import concurrent.futures as cf
        import quimb.core
        import quimb.gen.rand

        self.sched = Sched(stats)
        self._cf = cf
        self._core = quimb.core
        self._rand = quimb.gen.rand
        gtp = quimb.core.get_thread_pool
        self._saved = (
            gtp._pool_fn,
            gtp._settings,
            getattr(gtp, "_pool", None),
            cf.wait,
            quimb.gen.rand.wait,
        )
        sched = self.sched
        gtp._pool_fn = lambda n: SimPool(sched, n)
        gtp._settings = "__UNINITIALIZED__"
        cf.wait = sim_wait
        quimb.gen.rand.wait = sim_wait

    def remove(self):
        gtp = self._core.get_thread_pool
        pool_fn, settings, pool, w1, w2 = self._saved
        gtp._pool_fn = pool_fn
        gtp._settings = settings
        if pool is not None:
            gtp._pool = pool
        elif hasattr(gtp, "_pool"):
            del gtp._pool
        self._cf.wait = w1
        self._rand.wait = w2
