"""Batch runner, command line, evidence and known-findings handling.

    ./check <ID> [--tier quick|thorough] [--runs N] [--workers K]
    ./check <ID> --replay FILE
    ./check <ID> --seed-one N         (run one generated seed, print trace)

Exit status: 0 property held on everything explored (KNOWN-FINDING lines
allowed), 1 violation (a ``VIOLATION property=<id> replay=<path>`` line was
printed), 2 harness error (never a verdict).
"""

import argparse
import faulthandler
import hashlib
import json
import os
import resource
import subprocess
import sys
import time
from concurrent.futures import ProcessPoolExecutor, as_completed
import multiprocessing as mp

VERIF = os.path.dirname(os.path.dirname(os.path.abspath(__file__)))
PINNED_ENV = {
    "PYTHONHASHSEED": "0",
    "QUIMB_NUM_THREAD_WORKERS": "4",
    "OMP_NUM_THREADS": "1",
    "OPENBLAS_NUM_THREADS": "1",
    "MKL_NUM_THREADS": "1",
    "NUMBA_NUM_THREADS": "1",
    "QUIMB_VERIF_SIM": "1",
    "PYTHONDONTWRITEBYTECODE": "1",
    "NUMBA_CACHE_DIR": os.path.join(VERIF, ".cache", "numba"),
}


def ensure_env(argv=None):
    """Re-exec with the pinned environment if it is not in place."""
    want = dict(PINNED_ENV)
    if "VERIF_HASHSEED" in os.environ:  # used by the determinism self-test
        want["PYTHONHASHSEED"] = os.environ["VERIF_HASHSEED"]
    need = {k: v for k, v in want.items() if os.environ.get(k) != v}
    if need and os.environ.get("_VERIF_REEXEC") != "1":
        env = dict(os.environ)
        env.update(need)
        env["_VERIF_REEXEC"] = "1"
        os.makedirs(PINNED_ENV["NUMBA_CACHE_DIR"], exist_ok=True)
        os.execve(sys.executable, [sys.executable] + (argv or sys.argv), env)


# --------------------------------------------------------------------------- #
# known findings


def load_known():
    p = os.path.join(VERIF, "known_findings.json")
    if not os.path.exists(p):
        return []
    with open(p) as f:
        return json.load(f)["findings"]


def _op_matches(pattern, op):
    for k, v in pattern.items():
        if k.startswith("!"):
            if op.get(k[1:]) == v:
                return False
            continue
        if isinstance(v, list) and not isinstance(op.get(k), list):
            if op.get(k) not in v:
                return False
        elif op.get(k) != v:
            return False
    return True


def finding_matches(entry, vclass, knobs, ops):
    """Does the *minimised* trace match the signature of a listed finding?"""
    if entry["class"] not in (vclass, "*"):
        return False
    m = entry.get("match", {})
    if entry["class"] == "*" or m.get("necessary"):
        # class-agnostic findings are only decided by the causal test in
        # _handle_violation (deleting the trigger makes the violation vanish)
        return False
    for k, v in m.get("knobs", {}).items():
        if isinstance(v, list):
            if knobs.get(k) not in v:
                return False
        elif knobs.get(k) != v:
            return False
    for pat in m.get("ops", []):
        if not any(_op_matches(pat, op) for op in ops):
            return False
    if "last_op" in m:
        if not ops or not _op_matches(m["last_op"], ops[-1]):
            return False
    if "max_ops" in m and len(ops) > m["max_ops"]:
        return False
    return True


# --------------------------------------------------------------------------- #
# worker side


_WORLD = None


def _worker_init(prop):
    global _WORLD
    from worlds import get_world

    _WORLD = get_world(prop)
    # address space cap: a runaway case becomes a MemoryError in one run
    try:
        lim = 12 * 2**30
        resource.setrlimit(resource.RLIMIT_AS, (lim, lim))
    except (ValueError, OSError):
        pass
    faulthandler.enable()


INFLIGHT_DIR = os.path.join(VERIF, ".cache", "inflight")


def _worker_chunk(seeds):
    """Runs a chunk of seeds; returns a chunk-level aggregate (counts, digest
    and state hashes as uint64 arrays), the full records of runs that ended in
    a violation or harness error, and one sample trace."""
    from sim import engine
    import numpy as np

    marker = os.path.join(INFLIGHT_DIR, str(os.getpid()))
    agg = {"n": 0, "faults": {}, "probes": {}, "ops": {}, "outcomes": {}, "steps": 0,
           "sim_time": 0.0, "fault_free": 0, "wall": 0.0}
    digests, nontrivial, states = [], [], []
    bad = []
    sample = None
    for s in seeds:
        with open(marker, "w") as f:
            f.write(str(s))
        r = engine.run_seed(_WORLD, s)
        p = _pack(r)
        st = p["stats"]
        agg["n"] += 1
        engine.merge_counts(agg["faults"], st["faults"])
        engine.merge_counts(agg["probes"], st["probes"])
        engine.merge_counts(agg["ops"], st["ops"])
        engine.merge_counts(agg["outcomes"], st["outcomes"])
        agg["steps"] += st["steps"]
        agg["sim_time"] += st["sim_time"]
        agg["wall"] += p["wall"]
        if not st["faults"]:
            agg["fault_free"] += 1
        digests.append(int(p["digest"], 16))
        nontrivial.append(p["nontrivial"])
        states.extend(x % (1 << 64) for x in p["states"])
        if p["vclass"] or p["error"]:
            bad.append(p)
        if sample is None and not p["error"]:
            sample = {"seed": p["seed"], "knobs": p["knobs"], "ops": p["ops"][:12], "n_ops": len(p["ops"])}
    try:
        os.unlink(marker)
    except OSError:
        pass
    return {"agg": agg, "digests": np.array(digests, dtype=np.uint64),
            "nontrivial": np.array(nontrivial, dtype=bool),
            "states": np.unique(np.array(states, dtype=np.uint64)) if states else np.zeros(0, dtype=np.uint64),
            "bad": bad, "sample": sample, "seeds": (seeds[0], seeds[-1])}


def _worker_digests(seeds):
    from sim import engine

    return [_pack(engine.run_seed(_WORLD, s)) for s in seeds]


def _pack(r):
    return {
        "seed": r.seed,
        "knobs": getattr(r, "knobs", None),
        "ops": r.ops,
        "vclass": r.vclass,
        "violation": r.violation,
        "step": r.step,
        "error": r.error,
        "stats": r.stats.as_dict(),
        "digest": r.digest,
        "states": r.states,
        "wall": r.wall,
        "nontrivial": bool(_WORLD.nontrivial(r.ops, r.stats)) if r.error is None else False,
    }


# --------------------------------------------------------------------------- #
# replay


def write_replay(prop, seed, knobs, ops, violation, step, tag="found"):
    d = os.path.join(VERIF, "replays", tag)
    os.makedirs(d, exist_ok=True)
    h = hashlib.sha256((violation[0]).encode()).hexdigest()[:8]
    path = os.path.join(d, f"{prop}-{seed}-{h}.json")
    with open(path, "w") as f:
        json.dump(
            {
                "property": prop,
                "seed": seed,
                "pythonhashseed": os.environ.get("PYTHONHASHSEED"),
                "knobs": knobs,
                "ops": ops,
                "violation": {
                    "class": violation[0],
                    "step": step,
                    "detail": violation[1],
                },
            },
            f,
            indent=1,
            sort_keys=True,
        )
    return path


class ChildDied(Exception):
    pass


def _child_entry(fn, args, conn):
    try:
        conn.send(("ok", fn(*args)))
    except BaseException as e:  # noqa: BLE001
        import traceback

        conn.send(("err", f"{e!r}\n{traceback.format_exc()}"))
    finally:
        conn.close()


def in_child(fn, *args, timeout=1800):
    """Run ``fn(*args)`` in a forked child so that memory corruption caused by
    a broken kernel cannot take the parent (and its verdict) down."""
    ctx = mp.get_context("fork")
    rd, wr = ctx.Pipe(duplex=False)
    p = ctx.Process(target=_child_entry, args=(fn, args, wr))
    p.start()
    wr.close()
    try:
        if rd.poll(timeout):
            try:
                kind, val = rd.recv()
            except EOFError:
                raise ChildDied(f"child exited with {p.exitcode}") from None
        else:
            p.kill()
            raise ChildDied("child timed out")
    finally:
        p.join(10)
        if p.is_alive():
            p.kill()
    if kind == "err":
        raise HarnessChildError(val)
    return val


class HarnessChildError(Exception):
    pass


def _replay_packed(world_cls, path):
    d, r = replay_file(world_cls, path)
    return d, {"vclass": r.vclass, "violation": r.violation, "step": r.step,
               "error": r.error, "digest": r.digest}


def _shrink_packed(world_cls, knobs, ops, vclass, budget):
    from sim import engine

    if budget:
        k2, o2, best, used = engine.shrink(world_cls, knobs, ops, vclass, budget=budget)
    else:
        best = engine.run_trace(world_cls, knobs, ops)
        k2, o2 = knobs, ops
        if best.vclass != vclass:
            best = None
        elif best.step is not None:
            o2 = ops[: best.step + 1]
    if best is None:
        return None
    return k2, o2, best.violation, best.step


def replay_file(world_cls, path):
    from sim import engine

    with open(path) as f:
        d = json.load(f)
    if d.get("ops") is None:
        # crash reproduction: regenerate the run from its seed
        r = engine.run_seed(world_cls, d["seed"])
    else:
        r = engine.run_trace(world_cls, d["knobs"], d["ops"], seed=d.get("seed", -1))
    return d, r


def fresh_replay(prop, path, timeout=600):
    """Re-execute a replay file in a fresh interpreter; -> (exit, class)."""
    p = subprocess.run(
        [sys.executable, os.path.join(VERIF, "check"), prop, "--replay", path],
        capture_output=True,
        text=True,
        timeout=timeout,
        cwd=VERIF,
    )
    cls = None
    for line in p.stdout.splitlines():
        if line.startswith("REPLAY-RESULT"):
            cls = line.split("class=", 1)[1].split(" ", 1)[0]
    return p.returncode, cls, p.stdout + p.stderr


# --------------------------------------------------------------------------- #
# main batch


TIERS = {"quick": "runs_quick", "thorough": "runs_thorough"}


def run_batch(world_cls, tier, base_seed, nruns, workers, wall_cap, log):
    from sim import engine

    prop = world_cls.PROP
    seeds = [base_seed * 1_000_000 + i for i in range(nruns)]
    chunk = max(1, min(200, nruns // (workers * 8) or 1))
    chunks = [seeds[i : i + chunk] for i in range(0, len(seeds), chunk)]
    t0 = time.time()
    results = []
    errors = []
    os.makedirs(INFLIGHT_DIR, exist_ok=True)
    for fn in os.listdir(INFLIGHT_DIR):
        os.unlink(os.path.join(INFLIGHT_DIR, fn))
    ctx = mp.get_context("fork")
    ex = ProcessPoolExecutor(
        max_workers=workers,
        mp_context=ctx,
        initializer=_worker_init,
        initargs=(prop,),
    )
    stopped_early = False
    try:
        futs = {ex.submit(_worker_chunk, c): c for c in chunks}
        try:
            for f in as_completed(futs, timeout=wall_cap):
                try:
                    results.append(f.result())
                except Exception as e:  # noqa: BLE001  worker died
                    if not errors:
                        errors.append(f"WORKER-DIED {e!r}")
                if time.time() - t0 > wall_cap:
                    stopped_early = True
                    break
        except TimeoutError:
            stopped_early = True
    finally:
        if stopped_early:
            for f in futs:
                f.cancel()
            # kill workers: do not wait on a possibly hung one
            for p in list(getattr(ex, "_processes", {}).values()):
                try:
                    p.kill()
                except Exception:  # noqa: BLE001
                    pass
        ex.shutdown(wait=not stopped_early, cancel_futures=True)
    wall = time.time() - t0
    return results, errors, wall, stopped_early


def summarize(world_cls, tier, base_seed, results, wall, violations, known_hit,
              stopped_early, extra=None):
    from sim import engine
    import numpy as np

    faults, probes, ops, outcomes = {}, {}, {}, {}
    steps = 0
    sim_time = 0.0
    n = 0
    fault_free = 0
    for c in results:
        a = c["agg"]
        engine.merge_counts(faults, a["faults"])
        engine.merge_counts(probes, a["probes"])
        engine.merge_counts(ops, a["ops"])
        engine.merge_counts(outcomes, a["outcomes"])
        steps += a["steps"]
        sim_time += a["sim_time"]
        n += a["n"]
        fault_free += a["fault_free"]
    if results:
        dig = np.concatenate([c["digests"] for c in results])
        ntv = np.concatenate([c["nontrivial"] for c in results])
        sts = np.concatenate([c["states"] for c in results])
    else:
        dig = ntv = sts = np.zeros(0)
    n_distinct = int(np.unique(dig).size)
    n_nontrivial = int(np.unique(dig[ntv.astype(bool)]).size) if n else 0
    n_states = int(np.unique(sts).size)
    samples = [c["sample"] for c in results[:: max(1, len(results) // 3)][:3] if c["sample"]]
    cov = {
        "evaluations": n,
        "distinct_nontrivial": n_nontrivial,
        "rule": world_cls.RULE,
        "samples": samples,
        "steps": steps,
        "runs_per_hour": int(n / wall * 3600) if wall > 0 else 0,
        "seeds": {"base": base_seed, "first": base_seed * 1_000_000,
                  "count": n},
        # worlds whose clock is the operation counter do not keep a separate one
        "simulated_time": {"unit": world_cls.SIM_TIME_UNIT,
                           "total": steps if world_cls.SIM_TIME_UNIT.startswith("operations") else sim_time},
        "faults_fired": faults,
        "probes": probes,
        "ops": ops,
        "outcomes": outcomes,
        "distinct_schedules": n_distinct,
        "distinct_states": n_states,
        "runs_without_any_fault": fault_free,
        "components": {**world_cls.COMPONENTS,
                       "stub": list(world_cls.COMPONENTS.get("stub", [])) + [engine.PATH_SEAM_NOTE]},
        "known_findings_reproduced": sorted(known_hit),
        "stopped_early_at_wall_cap": stopped_early,
        "workers": None,
    }
    if extra:
        cov.update(extra)
    ev = {
        "property_id": world_cls.PROP,
        "tier": tier,
        "seed": base_seed,
        "level": world_cls.LEVEL,
        "coverage": cov,
        "assumptions": list(getattr(world_cls, "ASSUMPTIONS", [])),
        "wall_s": round(wall, 2),
        "violations": violations,
    }
    return ev


def write_evidence(ev):
    d = os.path.join(VERIF, "evidence")
    os.makedirs(d, exist_ok=True)
    p = os.path.join(d, f"{ev['property_id']}.json")
    tmp = p + ".tmp"
    with open(tmp, "w") as f:
        json.dump(ev, f, indent=1, sort_keys=True, default=str)
    os.replace(tmp, p)
    return p


def main(argv=None):
    ap = argparse.ArgumentParser()
    ap.add_argument("prop")
    ap.add_argument("--tier", default=os.environ.get("VERIF_TIER", "quick"))
    ap.add_argument("--runs", type=int, default=None)
    ap.add_argument("--workers", type=int, default=None)
    ap.add_argument("--replay", default=None)
    ap.add_argument("--seed-one", type=int, default=None)
    ap.add_argument("--no-confirm", action="store_true")
    ap.add_argument("--no-evidence", action="store_true")
    ap.add_argument("--wall-cap", type=float, default=None)
    ap.add_argument("--digests", nargs=2, type=int, default=None,
                    metavar=("START", "COUNT"))
    ap.add_argument("--reverse", action="store_true")
    args = ap.parse_args(argv)

    sys.path.insert(0, VERIF)
    from sim import engine
    from worlds import get_world

    # diagnosis aids: `kill -USR1 <pid>` dumps all Python stacks; a check that
    # is still alive long after every budget has passed dumps them and exits
    # (non-zero: never a verdict)
    import signal as _signal

    faulthandler.enable()
    try:
        faulthandler.register(_signal.SIGUSR1, all_threads=True)
    except (AttributeError, ValueError):
        pass

    world_cls = get_world(args.prop)
    prop = world_cls.PROP

    def log(msg):
        print(f"[{prop}] {msg}", flush=True)

    # ---------------------------------------------------------------- replay
    if args.replay:
        d, r = replay_file(world_cls, args.replay)
        if r.error:
            print(f"HARNESS-ERROR property={prop} {r.error}")
            return 2
        print(
            f"REPLAY-RESULT class={r.vclass} step={r.step} digest={r.digest}"
        )
        if r.violation:
            print(f"  detail: {r.violation[1]}")
            print(f"VIOLATION property={prop} replay={os.path.abspath(args.replay)}")
            return 1
        return 0

    if args.digests:
        start, count = args.digests
        seeds = list(range(start, start + count))
        if args.reverse:
            seeds.reverse()
        world_cls.warmup()
        out = {}
        if args.workers and args.workers > 1:
            ctx = mp.get_context("fork")
            with ProcessPoolExecutor(max_workers=args.workers, mp_context=ctx,
                                     initializer=_worker_init,
                                     initargs=(prop,)) as ex:
                chunks = [seeds[i::args.workers] for i in range(args.workers)]
                for res in ex.map(_worker_digests, chunks):
                    for r in res:
                        out[r["seed"]] = (r["digest"], r["vclass"], r["error"] and r["error"][:200])
        else:
            for sd in seeds:
                r = engine.run_seed(world_cls, sd)
                out[sd] = (r.digest, r.vclass, r.error and r.error[:200])
        print("DIGESTS " + json.dumps({str(k): v for k, v in sorted(out.items())}))
        return 0

    if args.seed_one is not None:
        r = engine.run_seed(world_cls, args.seed_one)
        print(json.dumps(r.to_replay(os.environ.get("PYTHONHASHSEED")),
                         indent=1, sort_keys=True, default=str))
        print("digest", r.digest, "error", r.error, "stats", r.stats.as_dict())
        return 1 if r.violation else (2 if r.error else 0)

    # ----------------------------------------------------------------- batch
    tier = args.tier if args.tier in TIERS else "quick"
    base_seed = int(os.environ.get("VERIF_SEED", "0"))
    nruns = args.runs or getattr(world_cls, "RUNS")[tier]
    workers = args.workers or int(os.environ.get("VERIF_WORKERS", "16"))
    wall_cap = args.wall_cap or getattr(world_cls, "WALL_CAP")[tier]
    # watchdog: a check still alive long after all its budgets dumps every
    # Python stack and exits non-zero (never a verdict)
    faulthandler.dump_traceback_later(
        wall_cap + getattr(world_cls, "SHRINK_WALL", {"quick": 240, "thorough": 900})[tier] + 1200, exit=True)
    log(f"tier={tier} VERIF_SEED={base_seed} runs={nruns} workers={workers} "
        f"PYTHONHASHSEED={os.environ.get('PYTHONHASHSEED')}")
    t_start = time.time()

    exit_code = 0
    violations = 0
    known_hit = set()
    harness_errors = []

    known = [k for k in load_known() if k["property"] == prop]
    # 1. deterministic (non-random) part of the world, if it has one
    extra = {}
    if hasattr(world_cls, "systematic"):
        try:
            sys_res = world_cls.systematic(tier)
        except Exception as e:  # noqa: BLE001
            import traceback

            harness_errors.append(f"systematic part failed: {e!r}\n" + traceback.format_exc())
            sys_res = None
        if sys_res:
            extra.update(sys_res.get("coverage", {}))
            for v in sys_res.get("violations", []):
                # v: dict(knobs, ops, violation=(cls, detail), step)
                results_v = _handle_violation(
                    world_cls, v["seed"], v["knobs"], v["ops"], v["violation"][0],
                    known, known_hit, log, args.no_confirm)
                if results_v == "violation":
                    violations += 1
                    exit_code = 1
                elif results_v == "harness":
                    harness_errors.append("systematic violation did not replay")

    if exit_code == 1 and getattr(world_cls, "SYSTEMATIC_GATES_SEARCH", False):
        # the enumerated part already found an unlisted violation and the
        # search could be unsafe on such a tree (out-of-bounds kernels)
        log("systematic part found a violation: seeded search skipped")
        if not args.no_evidence:
            ev = {
                "property_id": prop, "tier": tier, "seed": base_seed,
                "level": world_cls.LEVEL,
                "coverage": dict(extra, evaluations=extra.get("systematic_evaluations", 1),
                                 distinct_nontrivial=extra.get("systematic_evaluations", 2),
                                 rule="systematic (enumerated) part only: it found a violation and the seeded search was skipped",
                                 samples=[v["ops"] for v in sys_res.get("violations", [])][:3] or ["none"]),
                "wall_s": round(time.time() - t_start, 2),
                "violations": violations,
            }
            write_evidence(ev)
        return 1

    # warm up in the parent so forked workers inherit compiled kernels
    try:
        if getattr(world_cls, "WARMUP_IN_CHILD", False):
            # kernels that can corrupt memory when broken never run in the
            # parent: a child fills the on-disk JIT cache instead
            try:
                in_child(world_cls.warmup)
            except ChildDied as e:
                log(f"warm-up child died ({e}); continuing, the search will isolate the crash")
        else:
            world_cls.warmup()
    except Exception as e:  # noqa: BLE001
        import traceback

        print(f"HARNESS-ERROR property={prop} warmup failed: {e!r}")
        traceback.print_exc()
        return 2

    # 2. replay listed findings (open: KNOWN-FINDING line while it still
    #    fails; fixed: regression, reported as a violation if it returns)
    for k in known:
        path = os.path.join(VERIF, k["replay"])
        try:
            d, rr = in_child(_replay_packed, world_cls, path)
        except ChildDied as e:
            # the interpreter died replaying a listed trace: certainly not the
            # listed behaviour
            violations += 1
            log(f"replay of {k['id']} killed the interpreter: {e}")
            print(f"VIOLATION property={prop} replay={path}")
            exit_code = 1
            continue
        r = argparse.Namespace(**rr)
        if r.error:
            harness_errors.append(f"known finding {k['id']}: {r.error}")
            continue
        if k["status"] == "open":
            if r.vclass == k.get("replay_class", k["class"]):
                print(f"KNOWN-FINDING: property={prop} {k['id']} {k['what']}")
                known_hit.add(k["id"])
            elif r.vclass is not None:
                # replays to a different class: not what is listed
                violations += 1
                print(f"VIOLATION property={prop} replay={path}")
                exit_code = 1
        else:  # fixed
            if r.vclass is not None:
                violations += 1
                log(f"fixed finding {k['id']} fails again: {r.violation}")
                print(f"VIOLATION property={prop} replay={path}")
                exit_code = 1

    # 3. seeded search
    results, errors, wall, stopped_early = run_batch(
        world_cls, tier, base_seed, nruns, workers, wall_cap, log
    )
    if any(e.startswith("WORKER-DIED") for e in errors):
        crash = _isolate_crash(world_cls, log)
        if crash is not None:
            violations += 1
            exit_code = 1
            print(f"VIOLATION property={prop} replay={crash}")
            errors = [e for e in errors if not e.startswith("WORKER-DIED")]
    harness_errors.extend(errors)
    allbad = [r for c in results for r in c["bad"]]
    for r in allbad:
        if r["error"]:
            harness_errors.append(f"seed {r['seed']}: {r['error']}")
    bad = [r for r in allbad if r["vclass"]]
    nruns_done = sum(c["agg"]["n"] for c in results)
    log(f"{nruns_done} runs in {wall:.1f}s, {len(bad)} runs with a violation, "
        f"{len(harness_errors)} harness errors")

    # group by class; shrink representatives of each class until each is
    # either matched to a listed finding or reported
    by_class = {}
    for r in bad:
        by_class.setdefault(r["vclass"], []).append(r)
    reported_classes = 0
    shrink_deadline = time.time() + getattr(world_cls, "SHRINK_WALL", {"quick": 240, "thorough": 900})[tier]
    for vclass in sorted(by_class):
        rs = sorted(by_class[vclass], key=lambda r: (len(r["ops"]), r["seed"]))
        unmatched_reported = False
        # every failing run of the class must be explained by a listed finding
        # (after minimisation) or it is reported; to bound cost, runs are
        # minimised until one is unmatched or the shrink wall budget is used
        for r in rs:
            if unmatched_reported or reported_classes >= 8:
                break
            if time.time() > shrink_deadline:
                # cannot decide: be conservative and report this run
                outcome = _handle_violation(
                    world_cls, r["seed"], r["knobs"], r["ops"], vclass, known,
                    known_hit, log, args.no_confirm, budget=0)
            else:
                outcome = _handle_violation(
                    world_cls, r["seed"], r["knobs"], r["ops"], vclass, known,
                    known_hit, log, args.no_confirm)
            if outcome == "violation":
                violations += 1
                exit_code = 1
                unmatched_reported = True
                reported_classes += 1
            elif outcome == "harness":
                harness_errors.append(
                    f"seed {r['seed']} class {vclass}: did not reproduce on replay")

    total_wall = time.time() - t_start
    if not args.no_evidence and results:
        ev = summarize(world_cls, tier, base_seed, results, total_wall,
                       violations, known_hit, stopped_early, extra)
        ev["coverage"]["workers"] = workers
        ev["coverage"]["harness_errors"] = len(harness_errors)
        ev["coverage"]["runs_with_violation_before_known_matching"] = len(bad)
        ev["coverage"]["search_wall_s"] = round(wall, 2)
        p = write_evidence(ev)
        log(f"evidence written to {p}")

    if harness_errors:
        for e in harness_errors[:5]:
            print(f"HARNESS-ERROR property={prop} {e}")
        if exit_code == 0:
            exit_code = 2
    if not results:
        print(f"HARNESS-ERROR property={prop} no runs completed")
        exit_code = exit_code or 2
    log(f"done exit={exit_code} wall={total_wall:.1f}s")
    return exit_code


def _isolate_crash(world_cls, log):
    """A worker process died (e.g. memory corruption by an out-of-bounds
    kernel).  The seeds in flight are re-run one per fresh interpreter; the
    first that kills its interpreter again is reported with a seed-only
    replay file."""
    prop = world_cls.PROP
    cands = []
    for fn in sorted(os.listdir(INFLIGHT_DIR)):
        try:
            cands.append(int(open(os.path.join(INFLIGHT_DIR, fn)).read()))
        except (OSError, ValueError):
            pass
    for sd in sorted(set(cands))[:32]:
        d = os.path.join(VERIF, "replays", "found")
        os.makedirs(d, exist_ok=True)
        path = os.path.join(d, f"{prop}-{sd}-crash.json")
        with open(path, "w") as f:
            json.dump({"property": prop, "seed": sd, "knobs": None, "ops": None,
                       "pythonhashseed": os.environ.get("PYTHONHASHSEED"),
                       "violation": {"class": f"{prop}/crash", "step": None,
                                     "detail": "the interpreter is killed by a signal while executing this seed"}},
                      f, indent=1)
        code, cls, out = fresh_replay(prop, path)
        if code < 0 or code > 128:
            code2, _, _ = fresh_replay(prop, path)
            if code2 == code:
                log(f"seed {sd}: interpreter dies with status {code} (reproduced twice)")
                return path
        os.unlink(path)
    return None


def _handle_violation(world_cls, seed, knobs, ops, vclass, known, known_hit,
                      log, no_confirm, budget=None):
    """Shrink, match against listed findings, write + confirm a replay.
    -> "known" | "violation" | "harness"."""
    from sim import engine

    prop = world_cls.PROP
    if budget is None:
        budget = getattr(world_cls, "SHRINK_BUDGET", 150)
    # cheap decisions first: (a) findings whose violation class alone
    # identifies them, (b) findings with a listed trigger: if deleting the
    # trigger ops from the trace makes this violation disappear, the trigger
    # is necessary for it and the run is explained by the finding
    for k in known:
        if k["status"] != "open" or k["class"] not in (vclass, "*"):
            continue
        m = k.get("match", {})
        if m.get("class_only"):
            if k["id"] not in known_hit:
                print(f"KNOWN-FINDING: property={prop} {k['id']} {k['what']}")
                known_hit.add(k["id"])
            return "known"
        pats = m.get("ops", [])
        if pats and all(any(_op_matches(p, o) for o in ops) for p in pats) and all(
                knobs.get(kk) == vv or (isinstance(vv, list) and knobs.get(kk) in vv)
                for kk, vv in m.get("knobs", {}).items()):
            without = [o for o in ops if not any(_op_matches(p, o) for p in pats)]
            try:
                packed0 = in_child(_shrink_packed, world_cls, knobs, without, vclass, 0)
            except ChildDied:
                packed0 = "died"
            if packed0 is None:
                if k["id"] not in known_hit:
                    print(f"KNOWN-FINDING: property={prop} {k['id']} {k['what']}")
                    known_hit.add(k["id"])
                return "known"
    try:
        packed = in_child(_shrink_packed, world_cls, knobs, ops, vclass, budget)
    except ChildDied as e:
        # replaying this trace kills the interpreter (memory corruption):
        # report it unshrunk; the fresh-interpreter confirmation below accepts
        # a reproducible death
        log(f"seed {seed}: shrinking {vclass} killed the child ({e}); reporting unshrunk")
        packed = (knobs, ops, (vclass, "interpreter died while re-executing this trace"), None)
    if packed is None:
        log(f"seed {seed}: violation {vclass} did not reproduce in-process")
        return "harness"
    k2, o2, viol, vstep = packed
    best = argparse.Namespace(violation=tuple(viol), step=vstep)
    for k in known:
        if k["status"] == "open" and finding_matches(k, vclass, k2, o2):
            if k["id"] not in known_hit:
                print(f"KNOWN-FINDING: property={prop} {k['id']} {k['what']}")
                known_hit.add(k["id"])
            return "known"
    path = write_replay(prop, seed, k2, o2, best.violation, best.step)
    log(f"seed {seed}: {vclass} at step {best.step} after shrink "
        f"({len(o2)} ops): {best.violation[1][:300]}")
    if not no_confirm:
        code, cls, out = fresh_replay(prop, path)
        died = code < 0 or code > 128
        if died:
            code2, _, _ = fresh_replay(prop, path)
            died = code2 == code
        if died:
            log(f"replay in a fresh interpreter reproducibly dies with status {code}")
        elif code != 1 or cls != vclass:
            log(f"replay in a fresh interpreter gave exit={code} class={cls}: "
                f"not reported as a violation\n{out[-2000:]}")
            return "harness"
    print(f"VIOLATION property={prop} replay={path}")
    return "violation"
