"""Core of the deterministic simulator: seeded streams, run / replay,
violation classes, shrinking.

A *run* is a pure function of (property id, integer seed): the seed fixes the
knobs of the world and every operation, scheduler decision and fault.  Every
decision is written into the operation record that consumed it, so a *replay*
executes the recorded op list verbatim and uses no PRNG at all.
"""

import hashlib
import json
import random
import signal
import sys
import time
import traceback

import numpy as np

def _repo_prefix():
    """Directory of the quimb package under test (normally /repo/quimb/; a
    background soak may point PYTHONPATH at a snapshot copy of /repo)."""
    import importlib.util

    spec = importlib.util.find_spec("quimb")
    return os.path.dirname(spec.origin) + "/"


import os  # noqa: E402

REPO_PREFIX = _repo_prefix()


# --------------------------------------------------------------------------- #
# outcomes


class Violation(Exception):
    """An oracle said no.  ``cls`` is a short stable class string
    ``<id>/<oracle>[:<sub>]``; shrinking preserves it."""

    def __init__(self, cls, detail=""):
        super().__init__(f"{cls}: {detail}")
        self.cls = cls
        self.detail = str(detail)[:2000]


class HarnessError(Exception):
    """Something is wrong in the verification machinery itself (or a wall
    time-out): never reported as a VIOLATION, never exit 0."""


class RunTimeout(BaseException):
    """Raised by the per-run alarm."""


class Skip(Exception):
    """The op is not applicable in the current state (happens when replaying a
    shrunk trace): it is a no-op."""


# exception types that signal inconsistency inside the library when they escape
# from a call the model considers valid
INTERNAL_TYPES = (
    KeyError,
    IndexError,
    AttributeError,
    AssertionError,
    ZeroDivisionError,
    UnboundLocalError,
    NameError,
    RecursionError,
    StopIteration,
)
# exception types the library uses to refuse an argument
REJECT_TYPES = (ValueError, TypeError, NotImplementedError)

_SIGNATURE_TYPEERROR = (
    "unexpected keyword argument",
    "positional argument",
    "required positional",
    "required keyword",
    "multiple values for",
    "object is not callable",
    "object is not subscriptable",
    "object is not iterable",
    "unsupported operand",
    "has no len",
    "of empty iterable",
    "of empty sequence",
)


def innermost_quimb_frame(exc):
    """Name of the innermost function of /repo/quimb in the traceback."""
    name = "?"
    tb = exc.__traceback__
    while tb is not None:
        fn = tb.tb_frame.f_code.co_filename
        if fn.startswith(REPO_PREFIX):
            name = tb.tb_frame.f_code.co_name
        tb = tb.tb_next
    return name


class MissingDependency(Exception):
    """An optional third-party package is not installed in this sandbox."""


def classify_exception(exc):
    """-> ("rejected" | "internal", typename, function)."""
    fn = innermost_quimb_frame(exc)
    tname = type(exc).__name__
    if isinstance(exc, ModuleNotFoundError):
        raise Skip() from None
    if isinstance(exc, ImportError) and "autoray couldn't find function" in str(exc):
        # autoray's way of saying "this array type does not support that
        # operation": the call was refused
        return "rejected", tname, fn
    if isinstance(exc, TypeError):
        msg = str(exc)
        if any(s in msg for s in _SIGNATURE_TYPEERROR):
            return "internal", tname, fn
        return "rejected", tname, fn
    if isinstance(exc, INTERNAL_TYPES):
        return "internal", tname, fn
    if isinstance(exc, REJECT_TYPES):
        return "rejected", tname, fn
    if isinstance(exc, np.linalg.LinAlgError):
        return "rejected", tname, fn
    return "internal", tname, fn


# --------------------------------------------------------------------------- #
# seeded streams


def hash_int(*parts, nbytes=8):
    h = hashlib.sha256("|".join(str(p) for p in parts).encode()).digest()
    return int.from_bytes(h[:nbytes], "big")


class Streams:
    """Independent ``random.Random`` streams derived from one integer."""

    def __init__(self, prop, seed):
        self.prop = prop
        self.seed = int(seed)
        self._streams = {}

    def __getitem__(self, name):
        r = self._streams.get(name)
        if r is None:
            r = random.Random(hash_int("quimb-sim", self.prop, self.seed, name))
            self._streams[name] = r
        return r

    def sub_seed(self, name):
        return hash_int("quimb-sim-sub", self.prop, self.seed, name) % (2**31)


def data_rng(data_seed):
    return np.random.default_rng(int(data_seed))


# --------------------------------------------------------------------------- #
# stats collected per run


class Stats:
    def __init__(self):
        self.faults = {}
        self.probes = {}
        self.ops = {}
        self.outcomes = {}
        self.sim_time = 0.0
        self.steps = 0

    def fault(self, kind, n=1):
        self.faults[kind] = self.faults.get(kind, 0) + n

    def probe(self, name, n=1):
        self.probes[name] = self.probes.get(name, 0) + n

    def op(self, kind):
        self.ops[kind] = self.ops.get(kind, 0) + 1

    def outcome(self, kind):
        self.outcomes[kind] = self.outcomes.get(kind, 0) + 1

    def as_dict(self):
        return {
            "faults": self.faults,
            "probes": self.probes,
            "ops": self.ops,
            "outcomes": self.outcomes,
            "sim_time": self.sim_time,
            "steps": self.steps,
        }


def merge_counts(dst, src):
    for k, v in src.items():
        dst[k] = dst.get(k, 0) + v


# --------------------------------------------------------------------------- #
# world base class


class World:
    """Base class: one world per property.  Subclasses implement
    ``draw_knobs``, ``gen_op``, ``apply`` and optionally ``finish``,
    ``close``, ``simplify_op``, ``simplify_knobs``."""

    PROP = "C00"
    NAME = "base"
    LEVEL = "exploration"
    SIM_TIME_UNIT = "scheduler steps"
    COMPONENTS = {"real": [], "stub": []}
    RULE = ""

    def __init__(self, knobs, stats):
        self.knobs = knobs
        self.stats = stats
        self.obs = []  # discrete observations, hashed into the digest

    # -- to be provided ----------------------------------------------------
    @staticmethod
    def draw_knobs(S):
        return {"max_steps": 10}

    def gen_op(self, S):
        raise NotImplementedError

    def apply(self, op):
        raise NotImplementedError

    def finish(self):
        pass

    def close(self):
        pass

    def abstract_state(self):
        """Small hashable description of the model state (for the 'distinct
        states' measure)."""
        return None

    @staticmethod
    def simplify_op(op):
        """Yield simpler variants of ``op`` (for shrinking)."""
        return ()

    @staticmethod
    def simplify_knobs(knobs):
        return ()

    @staticmethod
    def nontrivial(trace, stats):
        """Does this run count as non-trivial for the coverage measure?"""
        return len(trace) >= 2

    # -- helpers -------------------------------------------------------------
    def note(self, *things):
        self.obs.append(things)

    def call(self, fn, *args, **kwargs):
        """Call into quimb.  Returns ("ok", value) or ("rejected", exc).
        Exceptions that signal internal inconsistency become violations."""
        try:
            return "ok", fn(*args, **kwargs)
        except (Violation, HarnessError, Skip):
            raise
        except Exception as e:  # noqa: BLE001
            kind, tname, where = classify_exception(e)
            if kind == "rejected":
                self.stats.outcome("rejected")
                return "rejected", e
            raise Violation(
                f"{self.PROP}/internal:{tname}@{where}",
                "".join(traceback.format_exception_only(type(e), e)).strip()
                + " | "
                + _short_tb(e),
            ) from e


def _short_tb(e, n=4):
    frames = traceback.extract_tb(e.__traceback__)
    frames = [f for f in frames if f.filename.startswith(REPO_PREFIX)][-n:]
    return " <- ".join(
        f"{f.filename[len(REPO_PREFIX):]}:{f.lineno}:{f.name}"
        for f in reversed(frames)
    )


# --------------------------------------------------------------------------- #
# executing runs


class RunResult:
    __slots__ = (
        "prop",
        "seed",
        "knobs",
        "ops",
        "violation",
        "step",
        "stats",
        "digest",
        "states",
        "error",
        "wall",
    )

    def __init__(self):
        self.violation = None
        self.step = None
        self.error = None
        self.states = []

    @property
    def vclass(self):
        return None if self.violation is None else self.violation[0]

    def to_replay(self, pythonhashseed=None):
        d = {
            "property": self.prop,
            "seed": self.seed,
            "pythonhashseed": pythonhashseed,
            "knobs": self.knobs,
            "ops": self.ops,
        }
        if self.violation is not None:
            d["violation"] = {
                "class": self.violation[0],
                "step": self.step,
                "detail": self.violation[1],
            }
        return d


def _jsonable(x):
    return json.loads(json.dumps(x, sort_keys=True, default=_json_default))


def _json_default(o):
    if isinstance(o, (np.integer,)):
        return int(o)
    if isinstance(o, (np.floating,)):
        return float(o)
    if isinstance(o, (np.bool_,)):
        return bool(o)
    if isinstance(o, (set, frozenset)):
        return sorted(o)
    if isinstance(o, tuple):
        return list(o)
    if isinstance(o, complex):
        return [o.real, o.imag]
    return repr(o)


def _digest(knobs, ops, obs, vclass, step):
    blob = json.dumps(
        [knobs, ops, obs, vclass, step], sort_keys=True, default=_json_default
    )
    return hashlib.sha256(blob.encode()).hexdigest()[:16]


def _alarm_handler(signum, frame):
    raise RunTimeout()


RUN_WALL_LIMIT = 180  # seconds; generous: typical runs take milliseconds


def _execute(world_cls, seed, knobs, ops, S, wall_limit=RUN_WALL_LIMIT):
    """Shared by generate (S is a Streams, ops is None) and replay (S is
    None, ops is the list)."""
    res = RunResult()
    res.prop = world_cls.PROP
    res.seed = seed
    stats = Stats()
    res.stats = stats
    t0 = time.perf_counter()
    generate = ops is None
    trace = [] if generate else ops
    world = None
    old = None
    if wall_limit:
        try:
            old = signal.signal(signal.SIGALRM, _alarm_handler)
            signal.setitimer(signal.ITIMER_REAL, wall_limit)
        except ValueError:  # not main thread
            old = None
    step = -1
    _seed_libraries(world_cls.PROP, seed)
    try:
        try:
            if generate:
                knobs = _jsonable(world_cls.draw_knobs(S))
            res.knobs = knobs
            world = world_cls(knobs, stats)
            nmax = knobs.get("max_steps", 10) if generate else len(ops)
            for step in range(nmax):
                if generate:
                    op = world.gen_op(S)
                    if op is None:
                        break
                    op = _jsonable(op)
                    trace.append(op)
                else:
                    op = trace[step]
                stats.op(op.get("k", "?"))
                try:
                    world.apply(op)
                except Skip:
                    stats.outcome("skipped")
                    world.note("skip")
                stats.steps += 1
                st = world.abstract_state()
                if st is not None:
                    res.states.append(hash_int(st))
            step = len(trace)
            world.finish()
        except Violation as v:
            res.violation = (v.cls, v.detail)
            res.step = step
        except RunTimeout:
            res.error = f"run wall limit {wall_limit}s exceeded at step {step}"
        except (HarnessError, Skip) as e:
            res.error = f"harness: {e!r} at step {step}\n" + traceback.format_exc()
        except MemoryError:
            res.error = f"MemoryError at step {step}\n" + traceback.format_exc()
        except Exception as e:  # noqa: BLE001  bug in the world code
            res.error = (
                f"harness exception {e!r} at step {step}\n"
                + traceback.format_exc()
            )
    finally:
        if old is not None:
            signal.setitimer(signal.ITIMER_REAL, 0)
            signal.signal(signal.SIGALRM, old)
        if world is not None:
            try:
                world.close()
            except Exception as e:  # noqa: BLE001
                if res.error is None:
                    res.error = f"harness: close failed {e!r}\n" + traceback.format_exc()
    res.ops = trace
    res.wall = time.perf_counter() - t0
    res.digest = _digest(
        res.knobs if hasattr(res, "knobs") else None,
        trace,
        world.obs if world is not None else None,
        res.vclass,
        res.step,
    )
    return res


_PATH_SEAM = [False]
PATH_SEAM_NOTE = (
    "cotengra 'auto' / 'auto-hq' path search beyond its exact-search cutoff (a randomised, "
    "wall-clock-budgeted hyper-optimisation on a process pool) -> deterministic greedy search in-process"
)


def pin_path_search():
    """Seam S9: quimb's default ``optimize='auto-hq'`` hands networks that are
    too large for cotengra's exact search to a hyper-optimiser: random trials
    until a wall-clock budget runs out, on a process pool of its own.  Neither
    the clock nor the pool belongs in a simulated run (and a pool inside a
    forked worker can hang), so that branch is replaced by cotengra's
    deterministic greedy search.  Contraction *values* do not depend on the
    path beyond rounding."""
    if _PATH_SEAM[0]:
        return
    import cotengra.presets as presets
    from cotengra import ContractionTree
    from cotengra.pathfinders.path_basic import optimize_greedy

    class _Greedy:
        def search(self, inputs, output, size_dict, **kwargs):
            ssa = optimize_greedy(inputs, output, size_dict, use_ssa=True)
            return ContractionTree.from_path(inputs, output, size_dict, ssa_path=ssa)

        def __call__(self, inputs, output, size_dict, **kwargs):
            return optimize_greedy(inputs, output, size_dict, use_ssa=False)

    g = _Greedy()
    presets.AutoOptimizer._get_optimizer_hyper_threadsafe = lambda self: g
    _PATH_SEAM[0] = True


def _seed_libraries(prop, seed):
    """Seam S5: library RNG state a run could otherwise inherit from whatever
    the worker process did before (numpy's global generator, quimb's
    per-thread generators used e.g. by randomised norm estimates)."""
    s = hash_int("libs", prop, seed) % (2**31)
    np.random.seed(s)
    random.seed(s)
    qu = sys.modules.get("quimb")
    if qu is None:
        import quimb as qu
    qu.seed_rand(s)
    pin_path_search()


def run_seed(world_cls, seed):
    """Generate and execute the run defined by ``seed``."""
    S = Streams(world_cls.PROP, seed)
    return _execute(world_cls, seed, None, None, S)


def run_trace(world_cls, knobs, ops, seed=-1):
    """Replay an explicit op list.  No PRNG involved."""
    return _execute(world_cls, seed, knobs, list(ops), None)


# --------------------------------------------------------------------------- #
# shrinking


def shrink(world_cls, knobs, ops, vclass, budget=150, log=None, wall=90.0):
    """ddmin over the op list, then per-op and knob simplifiers.  A candidate
    is accepted only if it fails with the same violation class."""
    used = [0]
    t_end = time.perf_counter() + wall

    def fails(k, o):
        if used[0] >= budget or (used[0] > 0 and time.perf_counter() > t_end):
            return False
        used[0] += 1
        r = run_trace(world_cls, k, o)
        if r.vclass == vclass:
            return r
        return False

    # truncate to the failing step
    r0 = fails(knobs, ops)
    if not r0:
        return knobs, ops, None, used[0]
    best = r0
    ops = list(ops)
    if best.step is not None and best.step + 1 < len(ops):
        cand = ops[: best.step + 1]
        r = fails(knobs, cand)
        if r:
            ops, best = cand, r

    # ddmin
    n = 2
    while len(ops) >= 2 and used[0] < budget:
        chunk = max(1, len(ops) // n)
        reduced = False
        i = 0
        while i < len(ops) and used[0] < budget:
            cand = ops[:i] + ops[i + chunk :]
            if cand:
                r = fails(knobs, cand)
                if r:
                    ops, best = cand, r
                    n = max(n - 1, 2)
                    reduced = True
                    continue
            i += chunk
        if not reduced:
            if chunk == 1:
                break
            n = min(len(ops), n * 2)

    # knob simplification
    changed = True
    while changed and used[0] < budget:
        changed = False
        for cand in world_cls.simplify_knobs(knobs):
            r = fails(cand, ops)
            if r:
                knobs, best, changed = cand, r, True
                break

    # per-op simplification
    changed = True
    rounds = 0
    while changed and used[0] < budget and rounds < 4:
        changed = False
        rounds += 1
        for i in range(len(ops)):
            for cand_op in world_cls.simplify_op(ops[i]):
                cand = ops[:i] + [cand_op] + ops[i + 1 :]
                r = fails(knobs, cand)
                if r:
                    ops, best, changed = cand, r, True
                    break
    if log:
        log(f"shrunk to {len(ops)} ops with {used[0]} re-executions")
    return knobs, ops, best, used[0]


# --------------------------------------------------------------------------- #
# small numeric helpers shared by worlds


def maxdiff(a, b):
    a = np.asarray(a)
    b = np.asarray(b)
    if a.shape != b.shape:
        return float("inf")
    if a.size == 0:
        return 0.0
    d = np.abs(a - b)
    if np.isnan(d).any():
        return float("inf")
    return float(d.max())


def pick(rng, seq):
    return seq[rng.randrange(len(seq))]


def wchoice(rng, table):
    """table: list of (item, weight)."""
    tot = sum(w for _, w in table)
    x = rng.random() * tot
    for it, w in table:
        x -= w
        if x < 0:
            return it
    return table[-1][0]
