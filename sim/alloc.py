"""Seam S2: a simulated address space.

quimb keys several registries and caches by ``id(obj)`` or by the default,
address-derived ``hash(obj)``.  CPython only promises that those are unique
among *live* objects; after an object dies its address (and so its key) may
be handed to the next object.  Whether that happens is an accident of the
allocator in real runs; here it is a recorded scheduler decision.

``SimAlloc`` keeps ``key = f(obj)`` stable for the lifetime of ``obj`` (tracked
with ``weakref.finalize``), never gives two live objects the same key, and
re-issues the key of a dead object when (and only when) asked to.  Every
behaviour it produces is one CPython may produce.
"""

import weakref


class SimAlloc:
    def __init__(self, stats=None, base=0x7F0000000000, stride=0x40):
        self.stats = stats
        self.live = {}  # id(obj) -> simulated key
        self.free = []  # keys of dead objects, most recently freed last
        self.next = base
        self.stride = stride
        self.reuse = False  # current policy, set per op by the world
        self.issued = 0
        self.reused = 0

    def _dead(self, oid, key):
        if self.live.get(oid) == key:
            del self.live[oid]
            self.free.append(key)

    def key(self, obj):
        oid = id(obj)
        k = self.live.get(oid)
        if k is not None:
            return k
        if self.reuse and self.free:
            k = self.free.pop()
            self.reused += 1
            if self.stats is not None:
                self.stats.fault("address_reuse")
        else:
            k = self.next
            self.next += self.stride
        self.issued += 1
        self.live[oid] = k
        try:
            weakref.finalize(obj, self._dead, oid, k)
        except TypeError:
            # object cannot be weak-referenced: it can never be observed
            # dying, so its key is never re-issued
            pass
        return k

    __call__ = key
