"""Seam S2: a simulated address space.

quimb keys several registries and caches by ``id(obj)`` or by the default,
address-derived ``hash(obj)``.  CPython only promises that those are unique
among *live* objects; after an object dies its address (and so its key) may
be handed to the next object.  Whether that happens is an accident of the
allocator in real runs; here it is a recorded scheduler decision.

``SimAlloc`` keeps ``key = f(obj)`` stable for the lifetime of ``obj`` (tracked
with ``weakref.finalize``), never gives two live objects the same key, and
re-issues the key of a dead object when (and only when) asked to.  Every
behaviour it produces is one CPython may produce.

Soundness of re-issuing: an address can only pass from A to B if A died before
B was *created*.  Keys are handed out lazily (at the first ``id()``/``hash()``
call), so the creation time of B is not observed in general.  Two rules keep
every decision legal:

* ``born(obj)`` - the world calls this at the creation site of an object it
  creates itself; every key in the free list belongs to an object that is
  already dead, so any of them may be re-issued;
* lazily keyed objects only re-use keys when the world enables
  ``lazy_reuse`` (it then guarantees that every object first seen during an
  operation was created during that operation), and then only keys freed
  before the current operation began (``new_epoch()`` marks the boundary).
"""

import weakref


class SimAlloc:
    def __init__(self, stats=None, base=0x7F0000000000, stride=0x40):
        self.stats = stats
        self.live = {}  # id(obj) -> simulated key
        self.free = []  # keys of dead objects, most recently freed last
        self.next = base
        self.stride = stride
        self.reuse = False  # current policy, set per op by the world
        self.lazy_reuse = False
        self.epoch = 0
        self.issued = 0
        self.reused = 0

    def new_epoch(self):
        self.epoch += 1

    def _dead(self, oid, key):
        if self.live.get(oid) == key:
            del self.live[oid]
            self.free.append((key, self.epoch))

    def born(self, obj):
        """Key for an object that is being created right now."""
        return self.key(obj, _born=True)

    def key(self, obj, _born=False):
        oid = id(obj)
        k = self.live.get(oid)
        if k is not None:
            return k
        k = None
        if self.reuse and self.free:
            if _born:
                k = self.free.pop()[0]
            elif self.lazy_reuse:
                for i in range(len(self.free) - 1, -1, -1):
                    if self.free[i][1] < self.epoch:
                        k = self.free.pop(i)[0]
                        break
        if k is not None:
            self.reused += 1
            if self.stats is not None:
                self.stats.fault("address_reuse")
        else:
            k = self.next
            self.next += self.stride
        self.issued += 1
        self.live[oid] = k
        try:
            weakref.finalize(obj, self._dead, oid, k)
        except TypeError:
            # object cannot be weak-referenced: it can never be observed
            # dying, so its key is never re-issued
            pass
        return k

    __call__ = key
