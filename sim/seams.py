"""Small harness-side seams shared by several worlds."""

import gc
import itertools
import string


class NameSeam:
    """Seam S3: quimb's generated index names.  ``_RAND_PREFIX`` is random per
    process and ``RAND_UUIDS`` is a process-global iterator; both are module
    globals read at call time by ``rand_uuid``, so a run sets them from its
    own state and replays see identical names."""

    ALPHABET = string.ascii_uppercase + string.ascii_lowercase

    def __init__(self, prefix="vsim00"):
        import quimb.tensor.tensor_core as tc

        self.tc = tc
        self.saved = (tc._RAND_PREFIX, tc.RAND_UUIDS)
        tc._RAND_PREFIX = prefix
        self.count = 0
        self.rewind(0)

    def _iter(self, start):
        def gen():
            n = start
            while True:
                # fixed width 5, base-52, counting up
                s = []
                x = n
                for _ in range(5):
                    s.append(self.ALPHABET[x % 52])
                    x //= 52
                self.count = n + 1
                yield "".join(reversed(s))
                n += 1

        return gen()

    def rewind(self, position):
        """Fault 'fork': continue generating from an earlier position, as a
        forked worker process would."""
        self.tc.RAND_UUIDS = self._iter(position)
        self.count = position

    def remove(self):
        self.tc._RAND_PREFIX, self.tc.RAND_UUIDS = self.saved


class GCSeam:
    """Seam S4: cyclic GC is switched off for the run so object death happens
    only where the scheduler puts it."""

    def __init__(self):
        gc.collect()
        self.was = gc.isenabled()
        gc.disable()

    def remove(self):
        if self.was:
            gc.enable()
        gc.collect()
