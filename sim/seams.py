"""Small harness-side seams shared by several worlds."""

import gc
import itertools
import string


class NameSeam:
    """Seam S3: quimb's generated index names.  ``_RAND_PREFIX`` is random per
    process and ``RAND_UUIDS`` is a process-global iterator; both are module
    globals read at call time by ``rand_uuid``, so a run sets them from its
    own state and replays see identical names."""

    ALPHABET = string.ascii_uppercase + string.ascii_lowercase

    def __init__(self, prefix="vsim00"):
        import quimb.tensor.tensor_core as tc

        self.tc = tc
        self.saved = (tc._RAND_PREFIX, tc.RAND_UUIDS)
        tc._RAND_PREFIX = prefix
        self.count = 0
        self.rewind(0)

    def _iter(self, start):
        def gen():
            n = start
            while True:
                # fixed width 5, base-52, counting up
                s = []
                x = n
                for _ in range(5):
                    s.append(self.ALPHABET[x % 52])
                    x //= 52
                self.count = n + 1
                yield "".join(reversed(s))
                n += 1

        return gen()

    def rewind(self, position):
        """Fault 'fork': continue generating from an earlier position, as a
        forked worker process would."""
        self.tc.RAND_UUIDS = self._iter(position)
        self.count = position

    def remove(self):
        self.tc._RAND_PREFIX, self.tc.RAND_UUIDS = self.saved
        if getattr(self, "_saved_uuid", None) is not None:
            self.tc.uuid = self._saved_uuid
            self._saved_uuid = None

    # -- a real fork ----------------------------------------------------------
    def seed_uuid4(self, seed):
        """`uuid.uuid4` as seen by quimb.tensor.tensor_core becomes a seeded
        sequence for the run, so that whatever an at-fork hook does with it is
        replayable."""
        import random
        import uuid as _uuid

        rng = random.Random(seed)
        self._saved_uuid = self.tc.uuid

        class _U:
            def __getattr__(self_, name):
                return getattr(_uuid, name)

            @staticmethod
            def uuid4():
                return _uuid.UUID(int=rng.getrandbits(128), version=4)

        self.tc.uuid = _U()


def run_in_forked_child(fn):
    """Run ``fn()`` in a real ``os.fork()`` child and return its pickled
    result: what a multiprocessing worker does.  The child inherits the whole
    interpreter state (name generator position included); only what it pickles
    comes back."""
    import os
    import pickle

    rd, wr = os.pipe()
    pid = os.fork()
    if pid == 0:
        code = 0
        try:
            os.close(rd)
            data = pickle.dumps(("ok", fn()))
        except BaseException as e:  # noqa: BLE001
            data = pickle.dumps(("err", repr(e)))
            code = 1
        try:
            with os.fdopen(wr, "wb") as f:
                f.write(data)
        finally:
            os._exit(code)
    os.close(wr)
    chunks = []
    with os.fdopen(rd, "rb") as f:
        while True:
            b = f.read(1 << 16)
            if not b:
                break
            chunks.append(b)
    os.waitpid(pid, 0)
    kind, val = pickle.loads(b"".join(chunks))
    if kind == "err":
        raise RuntimeError("forked child failed: " + val)
    return val


class GCSeam:
    """Seam S4: cyclic GC is switched off for the run so object death happens
    only where the scheduler puts it."""

    def __init__(self):
        gc.collect()
        self.was = gc.isenabled()
        gc.disable()

    def remove(self):
        if self.was:
            gc.enable()
        gc.collect()
