#!/venv/bin/python
"""store_seeded.py <ID> <name> <caught:yes|no|after-strengthening> "<classes that caught it>" "<needs>" """
import json, os, shutil, sys, subprocess
ID, name, caught, classes, needs = sys.argv[1:6]
src = f"/tmp/seed_{ID}" if len(sys.argv) < 7 else sys.argv[6]
dst = f"/verif/seeded/{name}"
os.makedirs(dst, exist_ok=True)
for f in ("patch.diff", "demo.py", "notes.md"):
    if os.path.exists(os.path.join(src, f)):
        shutil.copy(os.path.join(src, f), os.path.join(dst, f))
base = subprocess.run(["git", "-C", "/repo", "rev-parse", "--short", "HEAD"], capture_output=True, text=True).stdout.strip()
meta = {
    "property": ID,
    "origin": "fresh sub-agent given only the property text and a scratch worktree of /repo",
    "applies_to_repo_commit": base,
    "what_it_needs_to_manifest": needs,
    "confirmed": "demo.py exits 1/FAIL with the patch and 0/PASS without (tools/confirm_seeded.sh, scratch worktree); the sub-agent's notes.md lists the existing tests it ran with and without the change",
    "how_checked": f"git -C /repo apply patch.diff; ./check {ID} --tier quick; git -C /repo checkout -- .  (tools/try_seeded.sh)",
    "caught_by_check": caught,
    "violation_classes_reported": classes,
}
json.dump(meta, open(os.path.join(dst, "meta.json"), "w"), indent=1)
print("stored", dst)
