#!/venv/bin/python
"""stdin: pytest 'FAILED path::Class::name' lines -> which are in BASELINE stable_pass"""
import json, sys
b = json.load(open('/root/.vp/BASELINE.json'))
st = set(b['stable_pass'])
bad = 0
for l in sys.stdin:
    l = l.strip().replace('FAILED ', '').split(' - ')[0]
    if '::' not in l:
        continue
    path, rest = l.split('::', 1)
    mod = path[:-3].replace('/', '.')
    parts = rest.split('::')
    name = f"{mod}.{parts[0]}::{parts[1]}" if len(parts) == 2 else f"{mod}::{parts[0]}"
    if name in st:
        bad += 1
        print("BASELINE TEST FAILING:", name)
print("failing tests that are in the stable baseline:", bad)
