#!/bin/bash
# Usage: confirm_seeded.sh <ID>   (scratch worktree /tmp/wt_<ID>, outputs /tmp/seed_<ID>)
# Confirms: demo fails with the change, passes without; prints patch stats.
ID=$1; PRE=${2:-}; WT=/tmp/wt${PRE}_$ID; OUT=/tmp/seed${PRE}_$ID
cd $WT || exit 2
echo "== patch stat"; git diff --stat | tail -3
export PYTHONPATH=$WT NUMBA_CACHE_DIR=$OUT/numba_cache
echo "== demo WITH change"; timeout 900 /venv/bin/python $OUT/demo.py 2>&1 | grep -v Warn | tail -4; echo "exit=${PIPESTATUS[0]}"
git stash -q
echo "== demo WITHOUT change"; timeout 900 /venv/bin/python $OUT/demo.py 2>&1 | grep -v Warn | tail -3; echo "exit=${PIPESTATUS[0]}"
git stash pop -q
git diff > $OUT/patch.diff
