#!/bin/bash
# Usage: confirm_seeded.sh <ID> [prefix]   (scratch worktree /tmp/wt<prefix>_<ID>, outputs /tmp/seed<prefix>_<ID>)
# Confirms: demo fails with the change, passes without; (re)writes patch.diff.
# (uses git apply -R / git apply, not git stash: the stash is shared between worktrees)
ID=$1; PRE=${2:-}; WT=/tmp/wt${PRE}_$ID; OUT=/tmp/seed${PRE}_$ID
cd $WT || exit 2
git diff > $OUT/patch.diff
echo "== patch stat"; git diff --stat | tail -3
export PYTHONPATH=$WT NUMBA_CACHE_DIR=$OUT/numba_cache
echo "== demo WITH change"; timeout 900 /venv/bin/python $OUT/demo.py 2>&1 | grep -v Warn | tail -4; echo "exit=${PIPESTATUS[0]}"
git apply -R $OUT/patch.diff || exit 2
echo "== demo WITHOUT change"; timeout 900 /venv/bin/python $OUT/demo.py 2>&1 | grep -v Warn | tail -3; echo "exit=${PIPESTATUS[0]}"
git apply $OUT/patch.diff
