#!/venv/bin/python
"""Compare a junit xml of the repo's test-suite with BASELINE.json's
stable_pass list.  Usage: baseline_compare.py <junit.xml>"""
import json, sys
import xml.etree.ElementTree as ET

base = json.load(open("/root/.vp/BASELINE.json"))
stable = set(base["stable_pass"])
tree = ET.parse(sys.argv[1])
passed = set()
failed = set()
for tc in tree.iter("testcase"):
    name = f"{tc.get('classname')}::{tc.get('name')}"
    bad = any(c.tag in ("failure", "error", "skipped") for c in tc)
    (failed if bad else passed).add(name)
missing = sorted(stable - passed)
print(f"stable_pass={len(stable)} passed_now={len(passed)} stable_not_passing={len(missing)}")
for m in missing[:40]:
    print("  NOT PASSING:", m)
sys.exit(1 if missing else 0)
