#!/bin/bash
# Usage: try_seeded.sh <patch.diff> <PROP> [extra check args]
# Applies the patch to /repo, runs the check, reverts straight afterwards.
P=$1; PROP=$2; shift 2
cd /repo && git status --porcelain --untracked-files=no | grep -q . && { echo "/repo not clean"; exit 2; }
git -C /repo apply $P || exit 2
cd /verif && timeout 3000 ./check $PROP --no-evidence "$@" 2>&1 | grep -v "Warning\|warnings.warn\|self._y\|KNOWN-FINDING" | grep "seed\|VIOLATION\|done\|HARNESS" | cut -c1-330
git -C /repo checkout -- .
git -C /repo status --porcelain --untracked-files=no | grep -q . && echo "WARNING: /repo not clean after revert"
