#!/bin/bash
# Usage: try_seeded.sh <patch.diff> <PROP> [extra check args]
# Runs the check against the patch WITHOUT touching /repo's working tree: a
# scratch worktree of /repo's HEAD gets the patch, the check imports quimb from
# it (PYTHONPATH), and the worktree is removed afterwards.  (Equivalent to
# `git -C /repo apply`; safe while other runs import /repo.)
P=$(readlink -f $1); PROP=$2; shift 2
WT=/tmp/wt_try_$$
git -C /repo worktree add -q --detach $WT HEAD || exit 2
git -C $WT apply $P || { git -C /repo worktree remove --force $WT; exit 2; }
cd /verif && PYTHONPATH=$WT VERIF_REPO_COPY=1 timeout 3000 ./check $PROP --no-evidence "$@" 2>&1 | grep -v "Warning\|warnings.warn\|self._y\|KNOWN-FINDING" | grep "seed\|VIOLATION\|done\|HARNESS" | cut -c1-330
git -C /repo worktree remove --force $WT
