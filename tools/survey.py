#!/venv/bin/python
"""Developer aid: run N seeds of a world in-process (parallel) and summarise
violation classes / errors.  Usage: tools/survey.py PROP [N] [START]"""
import os, sys, collections, json
HERE = os.path.dirname(os.path.dirname(os.path.abspath(__file__)))
sys.path.insert(0, HERE)
from sim import runner
runner.ensure_env([os.path.abspath(__file__)] + sys.argv[1:])
from sim import engine
from worlds import get_world
import multiprocessing as mp

prop = sys.argv[1]
n = int(sys.argv[2]) if len(sys.argv) > 2 else 200
start = int(sys.argv[3]) if len(sys.argv) > 3 else 0
W = get_world(prop)

def one(s):
    r = engine.run_seed(W, s)
    return s, r.vclass, (r.violation[1][:300] if r.violation else None), (r.error[-1500:] if r.error else None), r.knobs, len(r.ops), r.wall

if __name__ == "__main__":
    with mp.get_context("fork").Pool(16) as p:
        res = p.map(one, range(start, start + n), chunksize=4)
    cls = collections.Counter(r[1] for r in res)
    print("classes:", json.dumps(cls.most_common(), indent=0))
    seen = set()
    for s, c, d, e, k, nops, wall in res:
        if e:
            print("ERROR seed", s, e)
            break
    for s, c, d, e, k, nops, wall in res:
        if c and c not in seen:
            seen.add(c)
            print(f"seed {s} [{nops} ops] {c}: {d}\n    knobs={ {kk: vv for kk, vv in (k or {}).items() if kk not in ('opts',)} }")
    print("errors:", sum(1 for r in res if r[3]), "max wall", max(r[6] for r in res), "total wall", sum(r[6] for r in res))
