#!/venv/bin/python
"""Regenerates MANIFEST.json from one table (kept in this file)."""
import json, os

HERE = os.path.dirname(os.path.abspath(__file__))

CLAIMED = {
    "C16": dict(
        category="fault_enumeration",
        technique="deterministic simulation: simulated thread pool behind quimb's real pool cache, seeded schedule/fault search (task completion order, stalled worker, run-at-submit, snapshot-merge simultaneity, pool switches) vs single-threaded reference; plus enumerated partition grid",
        text="Seeded search over schedules of the real threaded routines under a simulated executor (every completion order a FIFO pool of that capacity can produce, stalls, eager starts, simultaneous groups), poison-filled outputs so an unwritten element cannot hide, bit-for-bit comparison with the single-threaded form (randn: schedule independence at fixed (seed, num_threads), and for drawn scale / loc equality with scale*randn()+loc of its own unscaled draw); the partition arithmetic is additionally enumerated over a bounded grid as the property asks. Sampling: evidence, not proof.",
        design_ref="DESIGN.md §3.1",
        note="Trusts numpy/scipy serial expressions as reference; concurrency inside one nogil kernel call is modelled at task granularity (atomic tasks + snapshot-merge); no OS threads are used for verdicts.",
    ),
    "C14": dict(
        category="fault_enumeration",
        technique="deterministic simulation of belief propagation as a message-passing system: simulator-owned activation schedule (touched), message loss / staleness / duplication / corruption / knob changes, settled-message reference model, bounded-round convergence after faults stop; plus library-scheduled runs over drawn options",
        text="Seeded random forests (hyper-edges, dangling indices, several components, lazy site groups) for all six BP flavours. Configuration B replaces the round loop by a recorded activation schedule with injected message faults; after every quantum every message the model proves settled must equal the exact message, and after the faults stop all messages, the contraction value and all marginals must be exact within diameter-bounded fair rounds (or after the library's own run()). Configuration A runs the library loop under drawn update / damping / local-convergence / normalisation / distance (L1, L2, Linf, L2phased, cosine) / initial-message / insertion-order options and the function entry points; value, all marginals and every message are compared with the exact ones, the loop / generalised-loop expansions must reduce to the exact value on trees, and gauging / untruncated compression (D2BP and L2BP entry points) must leave the dense state unchanged. Sampling: evidence, not proof.",
        design_ref="DESIGN.md §3.2",
        note="Dense numpy einsum of <= 8 small tensors is the exact reference; signed/complex data judged only undamped and when every exact message is well conditioned; HV1BP pool tasks scheduled by the simulated pool.",
    ),
    "C02": dict(
        category="fault_enumeration",
        technique="deterministic simulation: seeded interleaving of public operations over several tensor networks sharing tensors, with lifecycle faults (view death now / at delayed GC, hash-address reuse through a simulated allocator, pickle/deepcopy restarts, forked name generator); fresh-scan reference + global ownership relation checked after every step",
        text="Up to 5 live networks over a shared pool of tensors with labels/tags from tiny alphabets; ~80 operation spellings incl. views (copy(virtual), view_as / view_like), partitions, renames through any holder (also creating, moving and dissolving labels repeated on one tensor), structural rewrites with their options, make_tids_consecutive(tid0), squeeze / mangle_inner_ options. After every step each live network's ind_map / tag_map / inner-outer sets / sizes / check() are compared with a fresh scan, the owners registry with the true holding relation, selections with brute force, and combine results with the no-merge / no-outer-rename rules. Faults decide when viewing networks die, whether a dead network's hash is re-issued, restarts and name-generator forks. Sampling: evidence, not proof.",
        design_ref="DESIGN.md §3.3",
        note="Operations are called inside their documented domains (arguments drawn from state; size-compatible adds); F6 (one network holding one tensor object twice) is the one open finding in known_findings.json and the default generator keeps its trigger rare; F8a/F8b/F13/F21 were repaired in /repo and their triggers are ordinary inputs now; the fork fault is a real os.fork() child building a network.",
    ),
    "C11": dict(
        category="exploration",
        technique="deterministic simulation: seeded history search (target times, steps, orders, generator abandonment, shared Hamiltonian, apply_to_arrays) against an independent dense product-formula model, with the id()-keyed operator caches of LocalHamGen running on a simulated allocator whose address re-use is a recorded decision",
        text="Random site-dependent non-exchange-symmetric Hamiltonians (L 2-6, open/periodic, H1 forms) and up to two TEBD objects sharing one; after every update_to / step / at_times yield the time, the dense state (vs my own statement of the order-1/2/4 formulas incl. the final partial step), the norm and the error estimate are checked; get_gate / get_gate_expm / get_trotter_gates against expm of the current stored terms; sum of terms against the supplied H2+H1; convergence order on fresh evolutions. Address re-use after apply_to_arrays is injected through the allocator seam. Progress bars (the library default) run for real with output disabled in a third of the runs. Sampling: evidence, not proof.",
        design_ref="DESIGN.md §3.6",
        note="scipy.linalg.expm and dense tensordot are the reference; periodic chains run with cutoff 1e-13 under a sweep budget (bond doubling); on odd periodic chains only a decrease of the error is demanded, as the property states.",
    ),
    "C08": dict(
        category="exploration",
        technique="deterministic simulation: seeded history search threading one canonical-centre record (and suspended sampler generators) through every record-taking MPS operation, per-step isometry-defect monitor + dense state model + dense-defined values of every canonical-form query; shrunk, replayable traces",
        text="One MPS (L 2-6, site-dependent physical dims, real/complex, optionally unnormalised) and one info dict handed to canonicalize / shift / compress_site / gates in every MPS mode (incl. non-unitary operators, reversed and non-adjacent sites, swap_back=False) / swaps with every absorb / sub-MPO / measure / all canonical readers with their non-default arguments (direction, get forms, method, descending where) / sample generators suspended across other operations, in info=, cur_orthog= or omitted spelling, plain or in-place. After every step: record soundness from independently computed isometry defects, left_inds flags, dense state vs model, reader values vs dense. Rejected calls must leave state untouched. Sampling: evidence, not proof.",
        design_ref="DESIGN.md §3.5",
        note="Generic-path gates neither read nor write the record: the simulated user resets it after them unless the gate is a single-site unitary; all compressions use cutoff=0; no fault kinds exist in this sequential code besides rejected calls and abandoned generators.",
    ),
    "C07": dict(
        category="exploration",
        technique="deterministic simulation: seeded interleaving of gate application, parameter updates, forks, queries, suspended sampler generators, rejected gates, abandoned generators and settrace-injected interrupts inside cached readers, over all five circuit simulator classes; dense state-vector reference model built from the circuit's own gate record",
        text="Up to three circuit objects (Circuit in every contract mode, CircuitDense, CircuitMPS, CircuitPermMPS, CircuitMPSLazy; 2-5 qubits) driven over the full registered gate vocabulary with drawn parameters, controls, raw unitaries, SWAP/IDEN, parametrize and all spellings; every gate's matrix is checked unitary; after rejected gates the record must be unchanged and later queries still exact; every reader (to_dense, amplitude, uni, partial_trace, local_expectation incl. lists and dtype, compute_marginal with fix, simplified psi / rdm, fidelity / error_estimate) is compared with the model, in 40% of the calls with non-default arguments (simplify_sequence, equalize_norms, optimize, reverse, dtype) and optionally after a rehearsal of the same query; a fifth of the circuits start from a caller-supplied entangled MPS psi0; parameters are updated directly, through update_params_from and through registered named parameters with string / callable / constant expressions (a quarter of the runs concentrate on parametrized Circuits); parametrized gates are also sent to the classes that must refuse them; samplers are generators suspended across writer steps and must yield supported strings; a seeded sampler run on the live circuit must equal the same sampler on a fresh replica of its recorded gates (history independence, double precision); a third of the runs use a sparse-support gate vocabulary so wrong distributions show as unsupported strings; interrupts are raised at a recorded line inside readers of the exact classes and later queries must still be right. Sampling: evidence, not proof.",
        design_ref="DESIGN.md §3.4",
        note="sample_gate_by_gate needs networkx, which is not installed here, and did not run; sample_chaotic only with every qubit as marginal qubit (otherwise it is approximate by design); PEPS/PEPO simple-update circuits truncate by construction and are out; a suspended sampler is accepted when its sample is supported on any state the circuit held since it first ran; with simplify_sequence in ('R', '') norms are not equalised (documented NaN for an all-zero tensor when check_zero is off).",
    ),
    "C18": dict(
        category="exploration",
        technique="deterministic simulation: seeded history search over (method x state kind x Hamiltonian representation x t0 x callbacks) and update-time sequences, at_times generators advanced / abandoned, cancellation through int_stop at a recorded accepted integrator step; expm / own RK4 propagator reference and conservation invariants at every observed state",
        text="Every combination of method (solve, integrate with both steppers, expm), ket / pure / mixed density operator, dense / sparse / pre-diagonalised / LinearOperator / callable H(t), non-zero t0 and 2- or 3-argument / dict callbacks is constructed: it must either be refused or satisfy, at every state observed (pt after each update, each yielded state, every (t, pt) a callback or int_stop saw, the state at evo.t after a cancellation), pt = U p0 (U^dag) within tolerance plus norm/trace, purity and energy conservation, and evo.t = requested time. Update sequences are non-uniform, repeated, tiny, and non-monotonic for solve; a quarter of the runs use progbar=True (real tqdm bars, output disabled), which re-installs the integrator's step callback on every update_to. Sampling: evidence, not proof.",
        design_ref="DESIGN.md §3.7",
        note="scipy.linalg.expm and an own fixed-step RK4 propagator are the reference; integrate judged at 2e-6*max(1,||H|| |t-t0|) (scipy default rtol 1e-6); the scipy steppers run for real; quimb.Lazy Hamiltonians are outside the listed representations.",
    ),
}

NOT_APPLICABLE = {
    "C01": "contraction value equivalence across entry points is a pure function of (network, outputs, path); no schedule, clock, fault or history enters (DESIGN.md §4)",
    "C03": "axis-order independence / plain-spelling-does-not-mutate are per-call frame properties of reflected method pairs; no schedule or fault enters (DESIGN.md §4)",
    "C04": "each simplification rewrite preserves the dense tensor for any input: pure; the id()-keyed 'already examined' caches can only skip a rewrite, never change a value (DESIGN.md §4)",
    "C05": "decomposition exactness/optimality: pure linear algebra per (array, method, options) (DESIGN.md §4)",
    "C06": "gate application equals operator multiplication: pure per (network, gate, sites, mode) (DESIGN.md §4)",
    "C09": "MPS/MPO arithmetic and compression vs dense algebra: pure (DESIGN.md §4)",
    "C10": "DMRG is a deterministic iteration from its inputs; sweep sequence and bond schedule are configuration, the property does not quantify over call histories (DESIGN.md §4)",
    "C12": "compressed contraction exactness / bond cap: pure per (lattice, options) (DESIGN.md §4)",
    "C13": "all routes to a local expectation agree with dense: pure (DESIGN.md §4)",
    "C15": "kron/ikron/permute/partial-trace algebra: pure arithmetic on (dims, indices, range); its threaded use is covered under C16 (DESIGN.md §4)",
    "C17": "eigen-solver correctness per (operator, selection rule, backend): pure up to solver-internal start vectors; the MPI launcher cannot run here (DESIGN.md §4)",
    "C19": "representations of one Hamiltonian agree, rank/unrank bijection: pure; the parallel builders are covered under C16 (DESIGN.md §4)",
    "C20": "entanglement measures satisfy their definitions: pure functions of the state (DESIGN.md §4)",
}

PENDING = {  # designed, world not yet registered: listed as not claimed until its check exists
    k: f"applicable and designed (DESIGN.md §3), but its simulation world is not registered yet in this revision; not claimed until the check exists"
    for k in ("C14", "C02", "C07", "C08", "C11", "C18")
}
PENDING = {k: v for k, v in PENDING.items() if k not in CLAIMED}


def main():
    import importlib, sys
    sys.path.insert(0, HERE)
    checks = []
    for pid, c in sorted(CLAIMED.items()):
        checks.append({
            "property_id": pid,
            "quick_cmd": f"./check {pid} --tier quick",
            "thorough_cmd": f"./check {pid} --tier thorough",
            "evidence_file": f"/verif/evidence/{pid}.json",
            "replay_cmd_template": f"./check {pid} --replay {{path}}",
            "engine": "quimb-sim",
            "level_claimed": {"category": c["category"], "text": c["text"], "design_ref": c["design_ref"]},
            "level_note": c["note"],
            "technique": c["technique"],
        })
    na = [{"property_id": k, "reason": v} for k, v in sorted({**NOT_APPLICABLE, **PENDING}.items())]
    m = {
        "version": 1,
        "setup_cmd": "/venv/bin/python selftest/setup.py",
        "hooks": {
            "guard": "QUIMB_VERIF_SIM",
            "enable": "no source hooks were needed: every seam is taken from the harness side (module globals, injectable attributes, interpreter facilities); ./check sets QUIMB_VERIF_SIM=1 for its own processes only",
            "baseline_off_cmd": "cd /repo && /venv/bin/python -m pytest -ra -q -p no:cacheprovider --timeout=900 --continue-on-collection-errors",
            "source_commits": [],
            "add_only": True,
        },
        "engines": [{
            "name": "quimb-sim",
            "path": "/verif/sim",
            "serves_properties": sorted(CLAIMED),
            "kind_free_text": "deterministic simulation with fault injection: seeded op/schedule/fault generator, explicit replayable traces, ddmin shrinking, reference models, process-pool runner",
        }],
        "checks": checks,
        "not_applicable": na,
        "notes": "Family studied: deterministic simulation with fault injection. See DESIGN.md. known_findings.json lists genuine defects (open / fixed) with committed replays.",
    }
    with open(os.path.join(HERE, "MANIFEST.json"), "w") as f:
        json.dump(m, f, indent=1)
    print("wrote MANIFEST.json with", len(checks), "checks and", len(na), "not_applicable")


if __name__ == "__main__":
    main()
